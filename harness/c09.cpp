// C09 harness: real TridiagEigen / UpperHessenbergSchur / UpperHessenbergEigen  vs  Lean model (double, bit patterns),
// plus the property's own predicates evaluated in long double on the real classes for float, double and long double.
#include "common.h"
#include <cctype>
#include <typeinfo>
#include <unistd.h>
#include <fcntl.h>
#include <sys/wait.h>
#include <Eigen/Core>
#include <Spectra/LinAlg/TridiagEigen.h>
#include <Spectra/LinAlg/UpperHessenbergSchur.h>
#include <Spectra/LinAlg/UpperHessenbergEigen.h>
// guarded friend access: the (overwritten) Schur factor kept inside UpperHessenbergEigen, read-only
struct SpectraVerifAccess {
    template <class S> static const Eigen::Matrix<S, Eigen::Dynamic, Eigen::Dynamic>& matT(const Spectra::UpperHessenbergEigen<S>& e) { return e.m_matT; }
};
using namespace vh;
typedef long double LD;
typedef Eigen::Matrix<LD, Eigen::Dynamic, Eigen::Dynamic> MatL;
typedef Eigen::Matrix<LD, Eigen::Dynamic, 1> VecL;
typedef Eigen::Matrix<std::complex<LD>, Eigen::Dynamic, Eigen::Dynamic> CMatL;

// ---- oracle constants (stated in evidence): residual <= C_RES * n * eps(Scalar) * ||A||_F, orthogonality <= C_ORTH * n * eps
static const LD C_RES = 200, C_ORTH = 100, C_UNIT = 50;

template <class S> struct SName { static const char* get() { return "double"; } };
template <> struct SName<float> { static const char* get() { return "float"; } };
template <> struct SName<long double> { static const char* get() { return "longdouble"; } };

// numbers travel as bit patterns; NaN (sign/payload are not modelled) as the token `nan`
static std::string fb(double x) { return x != x ? std::string("nan") : str(dbits(x)); }

template <class M> static bool all_finite(const M& m) { for (long j = 0; j < m.cols(); j++) for (long i = 0; i < m.rows(); i++) if (!std::isfinite((LD) m(i, j))) return false; return true; }

// replay json: op, scalar, n, pattern, zero_matrix, data as double bit patterns (inputs are generated in double and cast to Scalar)
static std::string replay_json(const std::string& op, const char* scalar, int n, const std::string& pat, const std::vector<double>& data) {
    bool z = true; double mx = 0; for (double x : data) { if (x != 0) z = false; if (std::fabs(x) > mx) mx = std::fabs(x); }
    const bool isf = std::string(scalar) == "float";
    const char* mag = z ? "zero" : mx >= (isf ? 1e10 : 1e100) ? "huge" : mx <= (isf ? 1e-10 : 1e-100) ? "tiny" : "normal";
    std::string s = "{\"op\":\"" + op + "\",\"scalar\":\"" + scalar + "\",\"n\":" + str(n) + ",\"pattern\":\"" + pat + "\",\"zero_matrix\":" + (z ? "1" : "0") + ",\"magnitude_class\":\"" + mag + "\",\"size_class\":\"" + (n == 1 ? "1" : n == 2 ? "2" : "ge3") + "\",\"bits\":[";
    for (size_t i = 0; i < data.size(); i++) { if (i) s += ","; s += str(dbits(data[i])); }
    return s + "]}";
}

static LD g_max_ratio[8] = {0, 0, 0, 0, 0, 0, 0, 0};   // measured worst ratios (for the evidence file)
static void note_ratio(int k, LD r) { if (r > g_max_ratio[k]) g_max_ratio[k] = r; }

// ------------------------------------------------------------------ tridiagonal
// data = d[0..n-1], e[0..n-2]
template <class S> static void oracle_trideig(int n, const std::vector<double>& data, const std::string& pat, Out& out) {
    typedef Eigen::Matrix<S, Eigen::Dynamic, Eigen::Dynamic> Mat;
    Mat T = Mat::Zero(n, n);
    for (int i = 0; i < n; i++) T(i, i) = (S) data[i];
    for (int i = 0; i + 1 < n; i++) { T(i + 1, i) = (S) data[n + i]; T(i, i + 1) = (S) data[n + i]; }
    const std::string rj = replay_json("trideig", SName<S>::get(), n, pat, data);
    const std::string tag = std::string("oracle_trideig_") + SName<S>::get();
    Spectra::TridiagEigen<S> eig;
    try { eig.compute(T); }
    catch (const std::exception& e) { out.fail("trideig-exception", std::string("TridiagEigen<") + SName<S>::get() + "> threw on a finite symmetric tridiagonal matrix: " + e.what(), rj); out.count(tag + "_throw"); return; }
    out.count(tag);
    Mat Z = eig.eigenvectors(); Eigen::Matrix<S, Eigen::Dynamic, 1> D = eig.eigenvalues();
    if (Z.rows() != n || Z.cols() != n || D.size() != n) { out.fail("trideig-shape", "wrong result dimensions", rj); return; }
    if (!all_finite(Z) || !all_finite(D)) { out.fail("trideig-nan", std::string("TridiagEigen<") + SName<S>::get() + "> returned a non-finite value without throwing", rj); return; }
    MatL TL = T.template cast<LD>(), ZL = Z.template cast<LD>(); VecL DL = D.template cast<LD>();
    const LD eps = std::numeric_limits<S>::epsilon();
    const LD nrm = TL.norm();
    MatL R = TL * ZL - ZL * DL.asDiagonal();
    LD res = R.cwiseAbs().maxCoeff();
    LD orth = (ZL.transpose() * ZL - MatL::Identity(n, n)).cwiseAbs().maxCoeff();
    if (nrm > 0) note_ratio(0, res / (n * eps * nrm));
    note_ratio(1, orth / (n * eps));
    if (res > C_RES * n * eps * nrm) out.fail("trideig-residual", std::string("TridiagEigen<") + SName<S>::get() + ">: max|TZ - ZD| = " + str((double) res) + " exceeds " + str((double) C_RES) + "*n*eps*||T||_F = " + str((double) (C_RES * n * eps * nrm)), rj);
    if (orth > C_ORTH * n * eps) out.fail("trideig-orth", std::string("TridiagEigen<") + SName<S>::get() + ">: max|Z'Z - I| = " + str((double) orth) + " exceeds " + str((double) C_ORTH) + "*n*eps", rj);
}

static void corr_trideig(int n, const std::vector<double>& data, Out& out) {
    Eigen::MatrixXd T = Eigen::MatrixXd::Zero(n, n);
    for (int i = 0; i < n; i++) T(i, i) = data[i];
    for (int i = 0; i + 1 < n; i++) { T(i + 1, i) = data[n + i]; T(i, i + 1) = data[n + i]; }
    std::string rq = "trideig " + str(n); for (double x : data) rq += " " + str(dbits(x));
    std::string rs;
    Spectra::TridiagEigen<double> eig;
    try {
        eig.compute(T);
        rs = "ok";
        const Eigen::VectorXd& D = eig.eigenvalues(); const Eigen::MatrixXd& Z = eig.eigenvectors();
        for (int i = 0; i < n; i++) rs += " " + fb(D[i]);
        for (int j = 0; j < n; j++) for (int i = 0; i < n; i++) rs += " " + fb(Z(i, j));
    } catch (const std::exception& e) { rs = std::string("throw std::runtime_error ") + e.what(); out.count("corr_trideig_throw"); }
    out.corr(rq, rs); out.count("corr_trideig");
}

// ------------------------------------------------------------------ Hessenberg: Schur
// data = H column-major, n*n
template <class S> static Eigen::Matrix<S, Eigen::Dynamic, Eigen::Dynamic> mat_of(int n, const std::vector<double>& data) {
    Eigen::Matrix<S, Eigen::Dynamic, Eigen::Dynamic> H(n, n);
    for (int j = 0; j < n; j++) for (int i = 0; i < n; i++) H(i, j) = (S) data[i + (size_t) j * n];
    return H;
}

template <class S> static void oracle_schur(int n, const std::vector<double>& data, const std::string& pat, Out& out) {
    typedef Eigen::Matrix<S, Eigen::Dynamic, Eigen::Dynamic> Mat;
    Mat H = mat_of<S>(n, data);
    const std::string rj = replay_json("schur", SName<S>::get(), n, pat, data);
    const std::string tag = std::string("oracle_schur_") + SName<S>::get();
    Spectra::UpperHessenbergSchur<S> sch;
    try { sch.compute(H); }
    catch (const std::runtime_error& e) { if (pat == "day_stall") { out.count(tag + "_cap_exception_allowed"); return; }   // the property allows the documented iteration-limit exception; this family is built to stall
        out.fail("schur-exception", std::string("UpperHessenbergSchur<") + SName<S>::get() + "> threw on a finite upper Hessenberg matrix: " + e.what(), rj); out.count(tag + "_throw"); return; }
    catch (const std::exception& e) { out.fail("schur-exception", std::string("UpperHessenbergSchur<") + SName<S>::get() + "> threw on a finite upper Hessenberg matrix: " + e.what(), rj); out.count(tag + "_throw"); return; }
    out.count(tag);
    Mat T = sch.matrix_T(), U = sch.matrix_U();
    if (!all_finite(T) || !all_finite(U)) { out.fail("schur-nan", std::string("UpperHessenbergSchur<") + SName<S>::get() + "> returned a non-finite value without throwing", rj); return; }
    for (int j = 0; j < n; j++) for (int i = j + 2; i < n; i++) if (T(i, j) != S(0)) { out.fail("schur-not-quasi-triangular", "T(" + str(i) + "," + str(j) + ") is not exactly zero", rj); return; }
    for (int i = 0; i + 2 < n; i++) if (T(i + 1, i) != S(0) && T(i + 2, i + 1) != S(0)) { out.fail("schur-not-quasi-triangular", "two consecutive nonzero sub-diagonal entries at " + str(i), rj); return; }
    MatL HL = H.template cast<LD>(), TL = T.template cast<LD>(), UL = U.template cast<LD>();
    const LD eps = std::numeric_limits<S>::epsilon(); const LD nrm = HL.norm();
    LD res = (UL * TL * UL.transpose() - HL).cwiseAbs().maxCoeff();
    LD orth = (UL.transpose() * UL - MatL::Identity(n, n)).cwiseAbs().maxCoeff();
    if (nrm > 0) note_ratio(2, res / (n * eps * nrm));
    note_ratio(3, orth / (n * eps));
    if (res > C_RES * n * eps * nrm) out.fail("schur-residual", std::string("UpperHessenbergSchur<") + SName<S>::get() + ">: max|U T U' - H| = " + str((double) res) + " exceeds " + str((double) C_RES) + "*n*eps*||H||_F = " + str((double) (C_RES * n * eps * nrm)), rj);
    if (orth > C_ORTH * n * eps) out.fail("schur-orth", std::string("UpperHessenbergSchur<") + SName<S>::get() + ">: max|U'U - I| = " + str((double) orth) + " exceeds " + str((double) C_ORTH) + "*n*eps", rj);
}

static void corr_schur(int n, const std::vector<double>& data, Out& out) {
    Eigen::MatrixXd H = mat_of<double>(n, data);
    std::string rq = "schur " + str(n); for (double x : data) rq += " " + str(dbits(x));
    std::string rs;
    Spectra::UpperHessenbergSchur<double> sch;
    try {
        sch.compute(H);
        rs = "ok";
        const Eigen::MatrixXd& T = sch.matrix_T(); const Eigen::MatrixXd& U = sch.matrix_U();
        for (int j = 0; j < n; j++) for (int i = 0; i < n; i++) rs += " " + fb(T(i, j));
        for (int j = 0; j < n; j++) for (int i = 0; i < n; i++) rs += " " + fb(U(i, j));
    } catch (const std::exception& e) { rs = std::string("throw std::runtime_error ") + e.what(); out.count("corr_schur_throw"); }
    out.corr(rq, rs); out.count("corr_schur");
}

// ------------------------------------------------------------------ Hessenberg: eigen-solver
template <class S> static void oracle_hesseig(int n, const std::vector<double>& data, const std::string& pat, Out& out) {
    typedef Eigen::Matrix<S, Eigen::Dynamic, Eigen::Dynamic> Mat;
    typedef std::complex<S> C; typedef std::complex<LD> CL;
    Mat H = mat_of<S>(n, data);
    const std::string rj = replay_json("hesseig", SName<S>::get(), n, pat, data);
    const std::string tag = std::string("oracle_hesseig_") + SName<S>::get();
    Spectra::UpperHessenbergEigen<S> eig;
    try { eig.compute(H); }
    catch (const std::runtime_error& e) { if (pat == "day_stall") { out.count(tag + "_cap_exception_allowed"); return; }
        out.fail("hesseig-exception", std::string("UpperHessenbergEigen<") + SName<S>::get() + "> threw on a finite upper Hessenberg matrix: " + e.what(), rj); out.count(tag + "_throw"); return; }
    catch (const std::exception& e) { out.fail("hesseig-exception", std::string("UpperHessenbergEigen<") + SName<S>::get() + "> threw on a finite upper Hessenberg matrix: " + e.what(), rj); out.count(tag + "_throw"); return; }
    out.count(tag);
    Eigen::Matrix<C, Eigen::Dynamic, 1> ev = eig.eigenvalues(); Eigen::Matrix<C, Eigen::Dynamic, Eigen::Dynamic> V = eig.eigenvectors();
    if (ev.size() != n || V.rows() != n || V.cols() != n) { out.fail("hesseig-shape", "wrong result dimensions", rj); return; }
    bool fin = true;
    for (int i = 0; i < n; i++) { if (!std::isfinite((LD) ev[i].real()) || !std::isfinite((LD) ev[i].imag())) fin = false; for (int k = 0; k < n; k++) if (!std::isfinite((LD) V(k, i).real()) || !std::isfinite((LD) V(k, i).imag())) fin = false; }
    if (!fin) { out.fail("hesseig-nan", std::string("UpperHessenbergEigen<") + SName<S>::get() + "> returned a non-finite value without throwing", rj); return; }
    // exact-zero / adjacent exact conjugates, positive imaginary part first
    for (int i = 0; i < n;) {
        if (ev[i].imag() == S(0)) { i++; continue; }
        if (!(ev[i].imag() > S(0))) { out.fail("hesseig-conj-order", "eigenvalue " + str(i) + " has negative imaginary part but does not follow its conjugate", rj); return; }
        if (i + 1 >= n || !(ev[i + 1].real() == ev[i].real() && ev[i + 1].imag() == -ev[i].imag())) { out.fail("hesseig-conj-exact", "complex eigenvalue " + str(i) + " is not followed by its exact conjugate", rj); return; }
        i += 2;
    }
    const LD eps = std::numeric_limits<S>::epsilon();
    MatL HL = H.template cast<LD>(); const LD nrm = HL.norm();
    CMatL HC = HL.template cast<CL>();
    for (int j = 0; j < n; j++) {
        Eigen::Matrix<CL, Eigen::Dynamic, 1> x(n); for (int k = 0; k < n; k++) x[k] = CL((LD) V(k, j).real(), (LD) V(k, j).imag());
        CL lam((LD) ev[j].real(), (LD) ev[j].imag());
        LD xn = x.norm();
        LD res = (HC * x - lam * x).norm();
        note_ratio(5, std::fabs(xn - 1) / (n * eps));
        if (nrm > 0) note_ratio(4, res / (n * eps * nrm));
        if (std::fabs(xn - 1) > C_UNIT * n * eps) { out.fail("hesseig-unit", std::string("UpperHessenbergEigen<") + SName<S>::get() + ">: eigenvector " + str(j) + " has norm " + str((double) xn), rj); return; }
        // a 2x2 diagonal block that UpperHessenbergSchur left unsplit but whose extracted imaginary part is exactly 0: both values are
        // flagged real, and the real-eigenvalue back-substitution then ignores the block's sub-diagonal entry (finding F20, fixed; m_matT is
        // not resized on the zero-matrix early exit, hence the size guard)
        const auto& MT = SpectraVerifAccess::matT(eig);
        const bool unsplit = MT.rows() == n && MT.cols() == n && ev[j].imag() == S(0) && ((j + 1 < n && MT(j + 1, j) != S(0)) || (j > 0 && MT(j, j - 1) != S(0)));
        if (res > C_RES * n * eps * nrm && unsplit) { out.fail("hesseig-residual-unsplit-block", std::string("UpperHessenbergEigen<") + SName<S>::get() + ">: ||H x - lambda x|| = " + str((double) res) + " for pair " + str(j) + ": eigenvalue reported real (imag == 0) although it comes from an unsplit 2x2 block of the Schur form", rj); return; }
        if (res > C_RES * n * eps * nrm) { out.fail("hesseig-residual", std::string("UpperHessenbergEigen<") + SName<S>::get() + ">: ||H x - lambda x|| = " + str((double) res) + " for pair " + str(j) + " exceeds " + str((double) C_RES) + "*n*eps*||H||_F = " + str((double) (C_RES * n * eps * nrm)), rj); return; }
    }
}

static void corr_hesseig(int n, const std::vector<double>& data, Out& out) {
    Eigen::MatrixXd H = mat_of<double>(n, data);
    std::string rq = "hesseig " + str(n); for (double x : data) rq += " " + str(dbits(x));
    std::string rs;
    Spectra::UpperHessenbergEigen<double> eig;
    try {
        eig.compute(H);
        rs = "ok";
        const Eigen::VectorXcd& ev = eig.eigenvalues(); Eigen::MatrixXcd V = eig.eigenvectors();
        for (int i = 0; i < n; i++) rs += " " + fb(ev[i].real()) + " " + fb(ev[i].imag());
        // eigenvector entries: signed zeros canonicalised (x + 0.0)
        for (int j = 0; j < n; j++) for (int i = 0; i < n; i++) rs += " " + fb(V(i, j).real() + 0.0) + " " + fb(V(i, j).imag() + 0.0);
    } catch (const std::exception& e) { rs = std::string("throw std::runtime_error ") + e.what(); out.count("corr_hesseig_throw"); }
    out.corr(rq, rs); out.count("corr_hesseig");
}

// complex division as compiled (libgcc __divdc3 through std::complex<double>::operator/): validates the model's port
static void corr_cdiv(double a, double b, double c, double d, Out& out) {
    volatile double va = a, vb = b, vc = c, vd = d;
    std::complex<double> q = std::complex<double>(va, vb) / std::complex<double>(vc, vd);
    out.corr("cdiv " + str(dbits(a)) + " " + str(dbits(b)) + " " + str(dbits(c)) + " " + str(dbits(d)), fb(q.real() + 0.0) + " " + fb(q.imag() + 0.0));
    out.count("corr_cdiv");
}

// decimal literals of the C++ (0.5, 0.75, -0.4375, 0.964) as compiled vs. as the model reads them
static void corr_lits(Out& out) {
    volatile double a = 0.5, b = 0.75, c = -0.4375, d = 0.964;
    out.corr("lits", str(dbits(a)) + " " + str(dbits(b)) + " " + str(dbits(c)) + " " + str(dbits(d)));
}

// ------------------------------------------------------------------ generators
static double pw10(int e) { return std::pow(10.0, e); }

static const char* TPAT[] = {"random", "integer", "graded", "zerosub", "repeated", "toeplitz", "wilkinson", "zero", "scaled_up", "scaled_down", "glued", "constdiag", "tinysub"};
static const int NTPAT = 13;
static std::vector<double> gen_tridiag(Rng& g, int n, int pat, int bigexp) {
    std::vector<double> v(2 * n - 1, 0.0);
    double* d = v.data(); double* e = v.data() + n;
    switch (pat) {
    case 0: for (int i = 0; i < n; i++) d[i] = g.sym(); for (int i = 0; i + 1 < n; i++) e[i] = g.sym(); break;
    case 1: for (int i = 0; i < n; i++) d[i] = g.range(-3, 3); for (int i = 0; i + 1 < n; i++) e[i] = g.range(-2, 2); break;
    case 2: { double dec = 16.0 / n; bool up = g.coin(); for (int i = 0; i < n; i++) { double s = std::pow(10.0, -dec * (up ? n - 1 - i : i)); d[i] = g.sym() * s; if (i + 1 < n) e[i] = g.sym() * s; } break; }
    case 3: for (int i = 0; i < n; i++) d[i] = g.sym(); for (int i = 0; i + 1 < n; i++) e[i] = g.coin(0.4) ? 0.0 : g.sym(); break;
    case 4: { double a = g.range(-2, 2), b = g.range(-2, 2); for (int i = 0; i < n; i++) d[i] = g.coin() ? a : b; for (int i = 0; i + 1 < n; i++) e[i] = g.coin(0.5) ? 0.0 : (g.coin() ? 1e-9 : 1.0) * g.range(-1, 1); break; }
    case 5: { double a = g.range(-2, 2), b = g.coin() ? 1.0 : -1.0; for (int i = 0; i < n; i++) d[i] = a; for (int i = 0; i + 1 < n; i++) e[i] = b; break; }
    case 6: for (int i = 0; i < n; i++) d[i] = std::fabs((n - 1) / 2.0 - i); for (int i = 0; i + 1 < n; i++) e[i] = 1.0; break;
    case 7: break;
    case 8: for (int i = 0; i < n; i++) d[i] = g.sym() * pw10(bigexp); for (int i = 0; i + 1 < n; i++) e[i] = g.sym() * pw10(bigexp); break;
    case 9: for (int i = 0; i < n; i++) d[i] = g.sym() * pw10(-bigexp); for (int i = 0; i + 1 < n; i++) e[i] = g.sym() * pw10(-bigexp); break;
    case 10: { for (int i = 0; i < n; i++) d[i] = std::fabs((double) ((i % 5) - 2)); for (int i = 0; i + 1 < n; i++) e[i] = ((i + 1) % 5 == 0) ? 1e-8 : 1.0; break; }
    case 11: { double a = g.sym(); for (int i = 0; i < n; i++) d[i] = a; for (int i = 0; i + 1 < n; i++) e[i] = g.sym(); break; }
    default: for (int i = 0; i < n; i++) d[i] = g.sym(); for (int i = 0; i + 1 < n; i++) e[i] = g.sym() * std::ldexp(1.0, -g.range(20, 60)); break;
    }
    return v;
}

static const char* HPAT[] = {"random", "integer", "graded", "zerosub", "triangular_repeated", "companion", "companion_defective", "jordan", "zero", "scaled_up", "scaled_down",
                             "cyclic", "orthogonal", "blockrep", "symtridiag", "identity", "tinysub", "jordan_perturbed", "defective_2x2", "day_stall"};
static const int NHPAT = 20;
static std::vector<double> gen_hess(Rng& g, int n, int pat, int bigexp) {
    std::vector<double> v((size_t) n * n, 0.0);
    auto H = [&](int i, int j) -> double& { return v[i + (size_t) j * n]; };
    auto fill_random = [&](double sc) { for (int j = 0; j < n; j++) for (int i = 0; i <= std::min(n - 1, j + 1); i++) H(i, j) = g.sym() * sc; };
    switch (pat) {
    case 0: fill_random(1.0); break;
    case 1: for (int j = 0; j < n; j++) for (int i = 0; i <= std::min(n - 1, j + 1); i++) H(i, j) = g.range(-3, 3); break;
    case 2: { double dec = 16.0 / n; bool up = g.coin(); fill_random(1.0); for (int j = 0; j < n; j++) for (int i = 0; i < n; i++) H(i, j) *= std::pow(10.0, -dec * (up ? (n - 1 - i) : i)); break; }
    case 3: fill_random(1.0); for (int i = 0; i + 1 < n; i++) if (g.coin(0.4)) H(i + 1, i) = 0.0; break;
    case 4: { double a = g.range(-2, 2), b = g.range(-2, 2); for (int j = 0; j < n; j++) { for (int i = 0; i < j; i++) H(i, j) = g.coin(0.5) ? g.range(-2, 2) : 0; H(j, j) = g.coin() ? a : b; } break; }
    case 5: for (int j = 0; j < n; j++) H(0, j) = g.coin(0.5) ? g.sym() * 3 : (double) g.range(-3, 3); for (int i = 0; i + 1 < n; i++) H(i + 1, i) = 1.0; break;
    case 6: { // companion matrix of (x - r)^n : one Jordan block of size n, unreduced
        int r = g.range(-1, 2); std::vector<double> c(n + 1, 0.0); c[0] = 1.0;   // coefficients of (x-r)^n, highest first
        for (int k = 0; k < n; k++) { for (int i = k + 1; i >= 1; i--) c[i] -= r * c[i - 1]; }
        for (int j = 0; j < n; j++) H(0, j) = -c[j + 1]; for (int i = 0; i + 1 < n; i++) H(i + 1, i) = 1.0; break; }
    case 7: { double a = g.range(-2, 2); for (int i = 0; i < n; i++) { H(i, i) = a; if (i + 1 < n) H(i, i + 1) = 1.0; } break; }
    case 8: break;
    case 9: fill_random(pw10(bigexp)); break;
    case 10: fill_random(pw10(-bigexp)); break;
    case 11: for (int i = 0; i + 1 < n; i++) H(i + 1, i) = 1.0; H(0, n - 1) = g.coin() ? 1.0 : -1.0; break;
    case 12: { // product of n-1 plane rotations G_0 G_1 ... : an orthogonal upper Hessenberg matrix
        for (int i = 0; i < n; i++) H(i, i) = 1.0;
        for (int k = n - 2; k >= 0; k--) { double t = g.sym() * 3.14159; double c = std::cos(t), s = std::sin(t);
            for (int j = 0; j < n; j++) { double x = H(k, j), y = H(k + 1, j); H(k, j) = c * x - s * y; H(k + 1, j) = s * x + c * y; } }
        for (int j = 0; j < n; j++) for (int i = j + 2; i < n; i++) H(i, j) = 0.0; break; }
    case 13: { double a = g.range(-2, 2), b = g.range(1, 3); for (int i = 0; i + 1 < n; i += 2) { H(i, i) = a; H(i + 1, i + 1) = a; H(i, i + 1) = b; H(i + 1, i) = -b; if (i + 2 < n && g.coin()) H(i + 1, i + 2) = g.range(-1, 1); }
               if (n % 2) H(n - 1, n - 1) = a; break; }
    case 14: for (int i = 0; i < n; i++) { H(i, i) = g.sym(); if (i + 1 < n) { double e = g.sym(); H(i + 1, i) = e; H(i, i + 1) = e; } } break;
    case 15: { double a = g.coin() ? 1.0 : g.sym(); for (int i = 0; i < n; i++) H(i, i) = a; break; }
    case 16: fill_random(1.0); for (int i = 0; i + 1 < n; i++) H(i + 1, i) *= std::ldexp(1.0, -g.range(20, 70)); break;
    case 17: { double a = g.range(-2, 2); for (int i = 0; i < n; i++) { H(i, i) = a; if (i + 1 < n) { H(i, i + 1) = 1.0; H(i + 1, i) = g.coin(0.5) ? 0.0 : std::ldexp(g.sym(), -g.range(10, 50)); } } break; }
    case 18: { // leading 2x2 block [[d+2p, b], [c, d]] with b*c = -p^2 up to a few ulps (numerically double real eigenvalue), decoupled from an upper triangular rest
        double p = g.sym(), b = g.sym() * 3, dd = g.sym(); if (b == 0) b = 1; double c = -(p * p) / b; c = bitsd(dbits(c) + (uint64_t) (int64_t) g.range(-3, 3));
        H(0, 0) = dd + 2 * p; H(0, 1) = b; H(1, 0) = c; H(1, 1) = dd; for (int j = 2; j < n; j++) for (int i = 0; i <= j; i++) H(i, j) = g.sym(); break; }
    default: { // Day's matrix [0 1 0 0; 1 0 h 0; 0 -h 0 1; 0 0 1 0] (the Francis iteration stalls for 10..30+ sweeps, so the exceptional
        // shifts at iterations 10 and 30 are exercised), decoupled from an upper triangular rest; needs n >= 4, else random
        if (n < 4) { fill_random(1.0); break; }
        double h = std::pow(10.0, -2.0 - 4.0 * g.unit()); double sc = g.coin(0.3) ? std::ldexp(1.0, g.range(-20, 20)) : 1.0;
        H(0, 1) = sc; H(1, 0) = sc; H(1, 2) = h * sc; H(2, 1) = -h * sc; H(2, 3) = sc; H(3, 2) = sc;
        for (int j = 4; j < n; j++) for (int i = 4; i <= j; i++) H(i, j) = g.sym() * sc; break; }
    }
    return v;
}

// ================================================================== histories on ONE object, views, accessor orders
// Blind spots closed here (seeded-change experiments): (1) every stream above uses an object once (construct -> compute -> query), so a member
// that a second compute() fails to reset is invisible; (2) every matrix argument above is an owning contiguous matrix, so code that ignores the
// outer stride of a block / Map / Ref is invisible; (3) every accessor is called once, in one order.
//
// A history is a list of steps on one object of one class:
//   C mode vseed n <data>   compute(M)        mode % 10 = how M is handed over: 0 owning matrix, 1 block of a larger matrix, 2 Map with outer stride,
//                                             3 a named `const Ref<const Matrix>` of a block, 5 transpose expression (Ref must copy), 6 Map with inner stride 2
//                                             (Ref must copy); mode >= 10: `Class tmp(M); obj = tmp;` (matrix constructor; object untouched if it throws).
//                                             vseed: seed of the view geometry (paddings, canary values); data as in the streams above
//   X rows cols             compute(rows x cols zero matrix), rows != cols  -> std::invalid_argument
//   Q k                     accessor k (trideig/hesseig: 0 eigenvalues() 1 eigenvectors(); schur: 0 matrix_T() 1 matrix_U())
//   W k rows cols <data>    schur: swap_T (k=0) / swap_U (k=1) with a caller matrix
// Oracle (float, double, long double), all comparisons on bit patterns:
//   * after a successful compute every accessor call, repeated and in any order, returns exactly what a FRESH object returns for the same matrix
//     handed over as an owning matrix (two fresh objects, queried in the orders 0,1 and 1,0,1,0; the second one built by the matrix constructor);
//     swap_* hands back exactly the member and installs exactly the caller's matrix;
//   * before any compute, and after a compute that threw std::runtime_error (iteration limit), every accessor throws std::logic_error: numbers of
//     an unfinished iteration or of the PREVIOUS matrix are never handed back;  after std::invalid_argument (nothing computed) the object is either
//     unchanged or "not computed";
//   * a reused object throws on M iff a fresh one does;
//   * the caller's storage (the view and the canaries around it) is bit-identical after the call.
// Correspondence (double): the same line is answered by the Lean object model (Model/C09Object.lean: one state threaded through all steps).
struct HStep { char kind = 'C'; int mode = 0; unsigned vseed = 0; int n = 0, rows = 0, cols = 0, k = 0; std::vector<double> data; std::string pat; };
struct Hist { int cls = 0; std::vector<HStep> steps; };
static const char* CLSNAME[3] = {"trideig", "schur", "hesseig"};

static std::string hist_line(const Hist& h) {
    std::string s = std::string("hist ") + CLSNAME[h.cls];
    for (const HStep& st : h.steps) {
        if (st.kind == 'C') { s += " C " + str(st.mode) + " " + str(st.vseed) + " " + str(st.n); for (double x : st.data) s += " " + str(dbits(x)); }
        else if (st.kind == 'X') s += " X " + str(st.rows) + " " + str(st.cols);
        else if (st.kind == 'Q') s += " Q " + str(st.k);
        else { s += " W " + str(st.k) + " " + str(st.rows) + " " + str(st.cols); for (double x : st.data) s += " " + str(dbits(x)); }
    }
    return s;
}
static bool parse_hist(const std::string& line, Hist& h) {
    std::istringstream is(line); std::vector<std::string> tk; std::string w; while (is >> w) tk.push_back(w);
    if (tk.size() < 2 || tk[0] != "hist") return false;
    h.cls = tk[1] == "trideig" ? 0 : tk[1] == "schur" ? 1 : tk[1] == "hesseig" ? 2 : -1; if (h.cls < 0) return false;
    size_t i = 2; auto num = [&](size_t j) { return j < tk.size() ? std::strtoull(tk[j].c_str(), nullptr, 10) : 0ull; };
    while (i < tk.size()) {
        HStep st; st.kind = tk[i][0]; st.pat = "replay";
        if (st.kind == 'C') { st.mode = (int) num(i + 1); st.vseed = (unsigned) num(i + 2); st.n = (int) num(i + 3); size_t cnt = h.cls == 0 ? 2 * (size_t) st.n - 1 : (size_t) st.n * st.n;
            if (st.n < 1 || i + 4 + cnt > tk.size()) return false; for (size_t j = 0; j < cnt; j++) st.data.push_back(bitsd(num(i + 4 + j))); i += 4 + cnt; }
        else if (st.kind == 'X') { st.rows = (int) num(i + 1); st.cols = (int) num(i + 2); i += 3; }
        else if (st.kind == 'Q') { st.k = (int) num(i + 1); i += 2; }
        else if (st.kind == 'W') { st.k = (int) num(i + 1); st.rows = (int) num(i + 2); st.cols = (int) num(i + 3); size_t cnt = (size_t) st.rows * st.cols;
            if (i + 4 + cnt > tk.size()) return false; for (size_t j = 0; j < cnt; j++) st.data.push_back(bitsd(num(i + 4 + j))); i += 4 + cnt; }
        else return false;
        h.steps.push_back(st);
    }
    return true;
}

static std::string ex_name(const std::exception& e) {
    if (dynamic_cast<const std::invalid_argument*>(&e)) return "std::invalid_argument";
    if (dynamic_cast<const std::logic_error*>(&e)) return "std::logic_error";
    if (dynamic_cast<const std::runtime_error*>(&e)) return "std::runtime_error";
    return "std::exception";
}

// same bit pattern (long double has padding bytes: compare value + sign, NaN == NaN)
template <class S> static bool same_bits(S a, S b) { if (a != a || b != b) return a != a && b != b; return a == b && std::signbit(a) == std::signbit(b); }

// result of one accessor call (complex values as re, im pairs)
template <class S> struct QRes { bool threw = false; std::string ex; long r = 0, c = 0; std::vector<S> v; };
template <class S> static long first_diff(const QRes<S>& a, const QRes<S>& b) {   // -1: identical
    if (a.threw != b.threw) return 0; if (a.threw) return a.ex == b.ex ? -1 : 0;
    if (a.r != b.r || a.c != b.c || a.v.size() != b.v.size()) return 0;
    for (size_t i = 0; i < a.v.size(); i++) if (!same_bits(a.v[i], b.v[i])) return (long) i;
    return -1;
}
template <class S, class M> static void fill_q(QRes<S>& q, const M& m) { q.r = m.rows(); q.c = m.cols(); q.v.assign(m.data(), m.data() + m.size()); }
template <class S, class M> static void fill_qc(QRes<S>& q, const M& m) { q.r = m.rows(); q.c = m.cols(); q.v.clear(); for (long j = 0; j < m.cols(); j++) for (long i = 0; i < m.rows(); i++) { q.v.push_back(m(i, j).real()); q.v.push_back(m(i, j).imag()); } }

// uniform wrappers around the three classes
template <class S> struct WTri {
    typedef Spectra::TridiagEigen<S> Cls; typedef Eigen::Matrix<S, Eigen::Dynamic, Eigen::Dynamic> Mat; Cls o;
    static const int cls = 0; static const bool has_swap = false;
    template <class V> void compute(const V& v) { o.compute(v); }
    template <class V> void construct(const V& v) { Cls tmp(v); o = tmp; }
    QRes<S> query(int k) { QRes<S> q; try { if (k == 0) fill_q(q, o.eigenvalues()); else fill_q(q, o.eigenvectors()); } catch (const std::exception& e) { q.threw = true; q.ex = ex_name(e) + " " + e.what(); } return q; }
    void swap(int, Mat&) {}
    static Mat build(int n, const std::vector<double>& d) { Mat T = Mat::Zero(n, n); for (int i = 0; i < n; i++) T(i, i) = (S) d[i]; for (int i = 0; i + 1 < n; i++) { T(i + 1, i) = (S) d[n + i]; T(i, i + 1) = (S) d[n + i]; } return T; }
};
template <class S> struct WSch {
    typedef Spectra::UpperHessenbergSchur<S> Cls; typedef Eigen::Matrix<S, Eigen::Dynamic, Eigen::Dynamic> Mat; Cls o;
    static const int cls = 1; static const bool has_swap = true;
    template <class V> void compute(const V& v) { o.compute(v); }
    template <class V> void construct(const V& v) { Cls tmp(v); o = tmp; }
    QRes<S> query(int k) { QRes<S> q; try { if (k == 0) fill_q(q, o.matrix_T()); else fill_q(q, o.matrix_U()); } catch (const std::exception& e) { q.threw = true; q.ex = ex_name(e) + " " + e.what(); } return q; }
    void swap(int k, Mat& other) { if (k == 0) o.swap_T(other); else o.swap_U(other); }
    static Mat build(int n, const std::vector<double>& d) { return mat_of<S>(n, d); }
};
template <class S> struct WEig {
    typedef Spectra::UpperHessenbergEigen<S> Cls; typedef Eigen::Matrix<S, Eigen::Dynamic, Eigen::Dynamic> Mat; Cls o;
    static const int cls = 2; static const bool has_swap = false;
    template <class V> void compute(const V& v) { o.compute(v); }
    template <class V> void construct(const V& v) { Cls tmp(v); o = tmp; }
    QRes<S> query(int k) { QRes<S> q; try { if (k == 0) fill_qc(q, o.eigenvalues()); else fill_qc(q, o.eigenvectors()); } catch (const std::exception& e) { q.threw = true; q.ex = ex_name(e) + " " + e.what(); } return q; }
    void swap(int, Mat&) {}
    static Mat build(int n, const std::vector<double>& d) { return mat_of<S>(n, d); }
};

// hand the matrix A to f through the requested kind of view; afterwards the caller's storage must be bit-identical
struct ViewOutcome { bool threw = false; std::string ex; std::string viol; };
template <class S, class F> static ViewOutcome with_view(const Eigen::Matrix<S, Eigen::Dynamic, Eigen::Dynamic>& A, int vmode, unsigned vseed, F&& f) {
    typedef Eigen::Matrix<S, Eigen::Dynamic, Eigen::Dynamic> Mat;
    ViewOutcome vo; const long r = A.rows(), c = A.cols();
    Rng g(vseed, 97);
    const int p0 = g.range(0, 3), p1 = g.range(0, 3), q0 = g.range(0, 3), q1 = g.range(0, 3), ck = g.range(0, 2);
    // canaries: NaN, huge finite, or values of the data's own magnitude (so that a stray read is neither masked nor only visible as NaN)
    auto canary = [&]() -> S { return ck == 0 ? std::numeric_limits<S>::quiet_NaN() : ck == 1 ? (S) ((g.coin() ? 1.0 : -1.0) * 3.0e30) : (S) (g.sym() * 4.0 + (g.coin() ? 0.5 : -0.5)); };
    auto guarded = [&](auto&& call) { try { call(); } catch (const std::exception& e) { vo.threw = true; vo.ex = ex_name(e) + " " + e.what(); } };
    auto same_buf = [&](const S* x, const S* y, size_t nn) { for (size_t i = 0; i < nn; i++) if (!same_bits(x[i], y[i])) return false; return true; };
    switch (vmode) {
    case 1: case 3: {
        Mat B(r + p0 + p1, c + q0 + q1); for (long i = 0; i < B.size(); i++) B.data()[i] = canary();
        B.block(p0, q0, r, c) = A; const Mat B0 = B;
        if (vmode == 1) guarded([&] { f(B.block(p0, q0, r, c)); });
        else { const Eigen::Ref<const Mat> rf(B.block(p0, q0, r, c)); guarded([&] { f(rf); }); }
        if (!same_buf(B.data(), B0.data(), (size_t) B.size())) vo.viol = "the caller's matrix (block + surrounding canaries) was modified";
        break; }
    case 2: {
        const long stride = r + p0 + p1 + ((p0 + p1) == 0 ? 1 : 0); std::vector<S> buf((size_t) (q0 + stride * c + q1 + 1)); for (S& x : buf) x = canary();
        for (long j = 0; j < c; j++) for (long i = 0; i < r; i++) buf[(size_t) (q0 + i + j * stride)] = A(i, j);
        const std::vector<S> buf0 = buf;
        Eigen::Map<const Mat, 0, Eigen::OuterStride<> > mp(buf.data() + q0, r, c, Eigen::OuterStride<>(stride));
        guarded([&] { f(mp); });
        if (!same_buf(buf.data(), buf0.data(), buf.size())) vo.viol = "the caller's buffer (Map with outer stride + canaries) was modified";
        break; }
    case 5: { const Mat At = A.transpose(); const Mat At0 = At; guarded([&] { f(At.transpose()); }); if (!same_buf(At.data(), At0.data(), (size_t) At.size())) vo.viol = "the caller's matrix was modified"; break; }
    case 6: {
        const long outer = 2 * r + p0 + 1; std::vector<S> buf((size_t) (outer * c + 2)); for (S& x : buf) x = canary();
        for (long j = 0; j < c; j++) for (long i = 0; i < r; i++) buf[(size_t) (2 * i + j * outer)] = A(i, j);
        const std::vector<S> buf0 = buf;
        Eigen::Map<const Mat, 0, Eigen::Stride<Eigen::Dynamic, Eigen::Dynamic> > mp(buf.data(), r, c, Eigen::Stride<Eigen::Dynamic, Eigen::Dynamic>(outer, 2));
        guarded([&] { f(mp); });
        if (!same_buf(buf.data(), buf0.data(), buf.size())) vo.viol = "the caller's buffer (Map with inner stride 2 + canaries) was modified";
        break; }
    default: { const Mat A0 = A; guarded([&] { f(A); }); if (!same_buf(A.data(), A0.data(), (size_t) A.size())) vo.viol = "the caller's matrix was modified"; break; }
    }
    return vo;
}

static std::map<std::string, int> g_hist_reported;
static void hist_fail(Out& out, const std::string& sig, const std::string& what, const Hist& h, const char* scalar, size_t step, const std::string& pat, int n, const std::string& extra) {
    out.count("hist_fail_" + sig);
    if (++g_hist_reported[sig + scalar + CLSNAME[h.cls]] > 3) return;   // at most 3 records per (signature, class, scalar): each carries the whole history
    Hist cut = h; cut.steps.resize(step + 1);                                // the history up to the failing step is the replay
    out.fail(sig, std::string(CLSNAME[h.cls]) + "<" + scalar + "> history step " + str(step) + ": " + what,
             "{\"op\":\"hist\",\"cls\":\"" + std::string(CLSNAME[h.cls]) + "\",\"scalar\":\"" + scalar + "\",\"n\":" + str(n) + ",\"pattern\":\"" + pat + "\",\"step\":" + str(step) + extra + ",\"line\":\"" + hist_line(cut) + "\"}");
}

template <class S> static std::string show_q(const QRes<S>&, bool) { return ""; }
template <> std::string show_q<double>(const QRes<double>& q, bool canon) {
    if (q.threw) return "throw " + q.ex;
    std::string s = "ok " + str(q.r) + " " + str(q.c); for (double x : q.v) s += " " + fb(canon ? x + 0.0 : x); return s;
}

template <class S, class W> static void run_hist(const Hist& h, Out& out, bool corr) {
    typedef Eigen::Matrix<S, Eigen::Dynamic, Eigen::Dynamic> Mat;
    const char* sc = SName<S>::get(); const std::string cn = CLSNAME[h.cls];
    W obj;
    enum { NONE, OK, FAILED } last = NONE;        // outcome of the last compute that reached the object
    bool lenient = false;                         // an invalid_argument call happened since: "unchanged" and "not computed" are both acceptable
    QRes<S> ref[2], stale[2]; bool ref_known[2] = {true, true}, stale_known[2] = {false, false};   // fresh object: empty members
    std::string rs; std::string pat = "none"; int ncur = 0;
    auto emit = [&](const std::string& x) { if (corr) { if (!rs.empty()) rs += " | "; rs += x; } };
    for (size_t si = 0; si < h.steps.size(); si++) {
        const HStep& st = h.steps[si];
        if (st.kind == 'C') {
            pat = st.pat; ncur = st.n;
            const Mat A = W::build(st.n, st.data);
            const bool ctor = st.mode >= 10;
            ViewOutcome vo = with_view<S>(A, st.mode % 10, st.vseed, [&](const auto& v) { if (ctor) obj.construct(v); else obj.compute(v); });
            out.count("hist_compute"); out.count("hist_compute_mode_" + str(st.mode)); out.count("view_canary_checks");
            if (!vo.viol.empty()) hist_fail(out, "input-modified", vo.viol, h, sc, si, pat, ncur, "");
            emit(vo.threw ? "throw " + vo.ex : "ok");
            // what a fresh object does with the same matrix, handed over as an owning matrix
            W f1; bool fthrew = false; try { f1.compute(A); } catch (const std::exception&) { fthrew = true; }
            if (fthrew != vo.threw) { hist_fail(out, "reuse-throw-mismatch", std::string("compute() ") + (vo.threw ? "threw (" + vo.ex + ")" : "returned") + " on the reused object / view, but " + (fthrew ? "threw" : "returned") + " on a fresh object with an owning matrix", h, sc, si, pat, ncur, ""); }
            if (vo.threw) {
                out.count("hist_compute_threw"); out.count("hist_compute_threw_" + cn);
                if (!ctor) { if (last == OK) for (int k = 0; k < 2; k++) { stale[k] = ref[k]; stale_known[k] = ref_known[k]; } last = FAILED; ref_known[0] = ref_known[1] = false; lenient = false; }   // `Class tmp(M)` threw: obj untouched
            } else {
                last = OK; lenient = false;
                if (!fthrew) {
                    ref[0] = f1.query(0); ref[1] = f1.query(1); ref_known[0] = ref_known[1] = true;
                    // a second fresh object, built by the matrix constructor, queried in the other order, repeatedly
                    W f2; bool f2ok = true; try { f2.construct(A); } catch (const std::exception&) { f2ok = false; }
                    if (f2ok) { const int ord[4] = {1, 0, 1, 0}; for (int t = 0; t < 4; t++) { QRes<S> q = f2.query(ord[t]); out.count("hist_cmp_fresh_orders");
                        if (first_diff(q, ref[ord[t]]) >= 0) { hist_fail(out, "accessor-order", "two FRESH objects disagree: accessor " + str(ord[t]) + " called in the order 1,0,1,0 on an object built by the matrix constructor differs from the order 0,1 after compute()", h, sc, si, pat, ncur, ""); break; } } }
                    else hist_fail(out, "reuse-throw-mismatch", "the matrix constructor threw on a matrix on which compute() returns", h, sc, si, pat, ncur, "");
                } else ref_known[0] = ref_known[1] = false;
            }
        } else if (st.kind == 'X') {
            const Mat A = Mat::Zero(st.rows, st.cols);
            ViewOutcome vo = with_view<S>(A, 0, 0, [&](const auto& v) { obj.compute(v); });
            out.count("hist_compute_nonsquare");
            emit(vo.threw ? "throw " + vo.ex : "ok");
            if (!vo.threw || vo.ex.find("std::invalid_argument") != 0) hist_fail(out, "nonsquare-accepted", "compute() on a " + str(st.rows) + "x" + str(st.cols) + " matrix did not throw std::invalid_argument", h, sc, si, pat, ncur, "");
            lenient = true;
        } else if (st.kind == 'Q') {
            const int k = st.k;
            QRes<S> q = obj.query(k);
            out.count("hist_query"); out.count(last == NONE ? "hist_query_before_compute" : last == OK ? "hist_query_after_ok" : "hist_query_after_failed_compute");
            emit(show_q<S>(q, h.cls == 2 && k == 1));
            const bool is_logic = q.threw && q.ex.find("std::logic_error") == 0;
            if (q.threw && !is_logic) hist_fail(out, "accessor-exception", "accessor " + str(k) + " threw " + q.ex, h, sc, si, pat, ncur, "");
            else if (last == NONE) { if (!q.threw) hist_fail(out, "accessor-before-compute", "accessor " + str(k) + " returned a " + str(q.r) + "x" + str(q.c) + " result on an object that has never computed anything", h, sc, si, pat, ncur, ""); }
            else if (last == OK) {
                if (q.threw) { if (!lenient) hist_fail(out, "accessor-throws-after-compute", "accessor " + str(k) + " threw " + q.ex + " after a successful compute()", h, sc, si, pat, ncur, ""); }
                else if (ref_known[k]) { out.count("hist_cmp_fresh");
                    long d = first_diff(q, ref[k]);
                    if (d >= 0) hist_fail(out, "reuse-differs-from-fresh", "accessor " + str(k) + " on the reused object returns " + str(q.r) + "x" + str(q.c) + ", a fresh object " + str(ref[k].r) + "x" + str(ref[k].c) +
                                          (q.v.size() == ref[k].v.size() && (size_t) d < q.v.size() ? "; first difference at flat index " + str(d) + ": " + str((double) q.v[d]) + " vs " + str((double) ref[k].v[d]) : std::string("; shapes differ")), h, sc, si, pat, ncur, ""); }
            } else {   // FAILED: the last compute threw std::runtime_error
                if (!q.threw) {
                    const bool prev = stale_known[k] && first_diff(q, stale[k]) < 0;
                    hist_fail(out, "accessor-after-failed-compute", "accessor " + str(k) + " returned a " + str(q.r) + "x" + str(q.c) + " result although the last compute() on this object threw (iteration limit): " +
                              (prev ? "bit-identical to the results of the PREVIOUS matrix" : "the unfinished iteration state") + "; a fresh object throws std::logic_error here", h, sc, si, pat, ncur,
                              std::string(",\"stale\":\"") + (prev ? "previous" : "partial") + "\"");
                }
            }
        } else if (st.kind == 'W' && W::has_swap) {
            Mat other(st.rows, st.cols); for (long i = 0; i < other.size(); i++) other.data()[i] = (S) st.data[(size_t) i];
            QRes<S> given; fill_q(given, other);
            obj.swap(st.k, other);
            QRes<S> back; fill_q(back, other);
            out.count("hist_swap");
            emit(show_q<S>(back, false));
            if (ref_known[st.k] && first_diff(back, ref[st.k]) >= 0) hist_fail(out, "swap-wrong", "swap_" + std::string(st.k == 0 ? "T" : "U") + " did not hand back the member", h, sc, si, pat, ncur, "");
            ref[st.k] = given; ref_known[st.k] = true; stale_known[st.k] = false;
        }
    }
    out.count("hist_" + cn + "_" + sc);
    if (corr) { out.corr(hist_line(h), rs); out.count("corr_hist_" + cn); }
}

template <class S> static void run_hist_cls(const Hist& h, Out& out, bool corr) {
    if (h.cls == 0) run_hist<S, WTri<S> >(h, out, corr); else if (h.cls == 1) run_hist<S, WSch<S> >(h, out, corr); else run_hist<S, WEig<S> >(h, out, corr);
}

// TridiagEigen on a 1x1 matrix: run in a child process (the unchanged tree dies in an Eigen assertion: maxCoeff() of the empty sub-diagonal)
static int probe_tri_1x1() {   // 0 ok, 1 died, 2 wrong numbers
    std::fflush(nullptr);
    pid_t p = fork();
    if (p < 0) return 0;
    if (p == 0) {
        int fd = open("/dev/null", O_WRONLY); if (fd >= 0) { dup2(fd, 2); dup2(fd, 1); }
        Eigen::MatrixXd A(1, 1); A(0, 0) = 3.0; bool ok = false;
        try { Spectra::TridiagEigen<double> e; e.compute(A); ok = e.eigenvalues().size() == 1 && e.eigenvalues()[0] == 3.0 && e.eigenvectors().rows() == 1 && e.eigenvectors()(0, 0) == 1.0; } catch (...) { ok = false; }
        _exit(ok ? 0 : 3);
    }
    int st = 0; if (waitpid(p, &st, 0) < 0) return 0;
    if (WIFEXITED(st) && WEXITSTATUS(st) == 0) return 0;
    return WIFEXITED(st) && WEXITSTATUS(st) == 3 ? 2 : 1;
}

// ---- history generator
// Day's matrix at scale 2^-8..2^-14 next to decoupled entries of magnitude 1: finite, well inside the scaling assumption, and the Francis iteration
// hits the 40n limit on it in UpperHessenbergSchur AND (the pre-scaling divides by the largest entry, 1) in UpperHessenbergEigen for most h
static std::vector<double> gen_day_big(Rng& g, int n) {
    std::vector<double> v((size_t) n * n, 0.0); auto H = [&](int i, int j) -> double& { return v[i + (size_t) j * n]; };
    const double h = std::pow(10.0, -2.0 - 4.0 * g.unit()), sc = std::ldexp(1.0, -g.range(8, 14));
    H(0, 1) = sc; H(1, 0) = sc; H(1, 2) = h * sc; H(2, 1) = -h * sc; H(2, 3) = sc; H(3, 2) = sc;
    for (int j = 4; j < n; j++) for (int i = 4; i <= j; i++) H(i, j) = i == j ? (g.coin() ? 1.0 : -1.0) * (0.5 + 0.5 * g.unit()) : g.sym();
    return v;
}
static const char* MKIND[] = {"generic", "zero", "diagonal", "triangular", "thrower", "one_by_one", "repeat", "identity"};
static std::vector<double> gen_hist_matrix(Rng& g, int cls, int& n, int kind, int bigexp, std::string& pat, const std::vector<double>& prev, int prevn) {
    pat = MKIND[kind];
    if (kind == 6 && prevn > 0) { n = prevn; return prev; }
    if (kind == 5) n = 1;
    if (cls == 0) {
        if (kind == 1) return std::vector<double>(2 * n - 1, 0.0);
        if (kind == 2 || kind == 3) { std::vector<double> v(2 * n - 1, 0.0); for (int i = 0; i < n; i++) v[i] = g.coin(0.3) ? (double) g.range(-2, 2) : g.sym(); return v; }
        if (kind == 7) { std::vector<double> v(2 * n - 1, 0.0); for (int i = 0; i < n; i++) v[i] = 1.0; return v; }
        if (kind == 4) { if (n < 2) n = 2; std::vector<double> v = gen_tridiag(g, n, 0, bigexp); v[g.below(v.size())] = std::numeric_limits<double>::quiet_NaN(); return v; }   // the only way to the iteration limit
        int p = (int) g.below(NTPAT); pat = std::string("generic_") + TPAT[p]; return gen_tridiag(g, n, p, bigexp);
    }
    if (kind == 1) return std::vector<double>((size_t) n * n, 0.0);
    if (kind == 2) { std::vector<double> v((size_t) n * n, 0.0); for (int i = 0; i < n; i++) v[i + (size_t) i * n] = g.coin(0.3) ? (double) g.range(-2, 2) : g.sym(); return v; }
    if (kind == 3) { std::vector<double> v((size_t) n * n, 0.0); for (int j = 0; j < n; j++) for (int i = 0; i <= j; i++) v[i + (size_t) j * n] = g.sym(); return v; }
    if (kind == 7) { std::vector<double> v((size_t) n * n, 0.0); for (int i = 0; i < n; i++) v[i + (size_t) i * n] = 1.0; return v; }
    if (kind == 4) { if (n < 5) n = 5; return gen_day_big(g, n); }
    if (n == 1) { pat = "generic_1x1"; return std::vector<double>(1, g.coin(0.3) ? (double) g.range(-2, 2) : g.sym() * (g.coin(0.2) ? pw10(g.coin() ? bigexp : -bigexp) : 1.0)); }   // gen_hess needs n >= 2
    int p = (int) g.below(NHPAT); pat = std::string("generic_") + HPAT[p]; return gen_hess(g, n, p, bigexp);
}
static Hist gen_hist(Rng& g, int cls, int bigexp, bool thorough, bool tri1ok, Out* cnt) {
    Hist h; h.cls = cls;
    const int nmin = cls == 0 && !tri1ok ? 2 : 1, nmax = thorough ? 16 : 9;
    auto queries = [&](int lo, int hi) { int nq = g.range(lo, hi); for (int t = 0; t < nq; t++) {
        if (cls == 1 && g.coin(0.12)) { HStep w; w.kind = 'W'; w.k = (int) g.below(2); w.rows = g.range(0, 4); w.cols = g.coin(0.7) ? w.rows : g.range(0, 4); w.data.resize((size_t) w.rows * w.cols); for (double& x : w.data) x = g.sym(); h.steps.push_back(w); }
        else { HStep q; q.kind = 'Q'; q.k = (int) g.below(2); h.steps.push_back(q); if (g.coin(0.3)) h.steps.push_back(q); } } };   // same accessor twice in a row, too
    if (g.coin(0.15)) queries(1, 2);                                 // accessors on an object that has not computed anything
    if (g.coin(0.05)) { HStep x; x.kind = 'X'; x.rows = g.range(1, 4); x.cols = x.rows + g.range(1, 2); h.steps.push_back(x); queries(0, 1); }
    const int ncomp = g.range(2, thorough ? 6 : 4);
    std::vector<double> prev; int prevn = 0; bool after_throw = false;
    for (int c = 0; c < ncomp; c++) {
        HStep st; st.kind = 'C';
        int n; const char* rel = "first";
        if (prevn == 0) n = g.range(std::max(nmin, 2), nmax);
        else { double u = g.unit(); if (u < 0.45) { n = prevn; rel = "same"; } else if (u < 0.68) { n = g.range(nmin, std::max(nmin, prevn - 1)); rel = n < prevn ? "smaller" : "same"; } else { n = g.range(prevn + 1, std::max(prevn + 1, nmax + 2)); rel = "larger"; } }
        int kind; { double u = g.unit();
            if (after_throw && u < 0.7) kind = 0;                    // compute(thrower); queries; compute(M3 ordinary)
            else if (c == 0) kind = u < 0.62 ? 0 : u < 0.70 ? 1 : u < 0.86 ? 4 : u < 0.91 ? 5 : u < 0.96 ? 2 : 3;
            else kind = u < 0.30 ? 0 : u < 0.45 ? 1 : u < 0.53 ? 2 : u < 0.60 ? 3 : u < 0.80 ? 4 : u < 0.87 ? 5 : u < 0.95 ? 6 : 7; }
        if (kind == 5 && nmin > 1) kind = 0;
        st.data = gen_hist_matrix(g, cls, n, kind, bigexp, st.pat, prev, prevn);
        if (prevn > 0) rel = n == prevn ? "same" : n < prevn ? "smaller" : "larger";
        st.n = n;
        static const int VM[6] = {0, 1, 2, 3, 5, 6};
        st.mode = VM[g.below(6)] + (g.coin(c == 0 ? 0.3 : 0.1) ? 10 : 0); st.vseed = (unsigned) g.below(1000000);
        h.steps.push_back(st);
        if (cnt) { cnt->count(std::string("hist_gen_kind_") + MKIND[kind]); cnt->count(std::string("hist_gen_size_") + rel); if (n == 1) cnt->count("hist_gen_n1"); }
        after_throw = kind == 4;
        prev = st.data; prevn = n;
        queries(c + 1 == ncomp ? 1 : 0, 4);
        if (g.coin(0.04)) { HStep x; x.kind = 'X'; x.rows = g.range(1, 4); x.cols = x.rows + g.range(1, 2); h.steps.push_back(x); queries(0, 2); }
    }
    return h;
}

static int pick_size(Rng& g, bool thorough) {
    if (thorough) { double u = g.unit(); if (u < 0.55) return g.range(2, 12); if (u < 0.9) return g.range(13, 32); return g.range(33, 64); }
    double u = g.unit(); if (u < 0.75) return g.range(2, 10); return g.range(11, 20);
}

template <class S> struct BigExp { static int get() { return 150; } };
template <> struct BigExp<float> { static int get() { return 15; } };

// a value representable in Scalar (float inputs are rounded to float first so that all scalar types see "the same" matrix class)
template <class S> static void round_to(std::vector<double>& v) { for (double& x : v) x = (double) (S) x; }

static std::vector<double> parse_bits(const std::string& t) {
    std::vector<double> v; auto pv = t.find("\"bits\":[");
    if (pv == std::string::npos) return v;
    const char* c = t.c_str() + pv + 8;
    while (*c && *c != ']') { char* e; unsigned long long u = std::strtoull(c, &e, 10); if (e == c) break; v.push_back(bitsd(u)); c = e; if (*c == ',') c++; }
    return v;
}
static std::string parse_str(const std::string& t, const std::string& key) {
    auto p = t.find("\"" + key + "\":\""); if (p == std::string::npos) return "";
    p += key.size() + 4; auto q = t.find('"', p); return t.substr(p, q - p);
}

template <class S> static void run_oracle(const std::string& op, int n, const std::vector<double>& data, const std::string& pat, Out& out) {
    if (op == "trideig") oracle_trideig<S>(n, data, pat, out);
    else if (op == "schur") oracle_schur<S>(n, data, pat, out);
    else oracle_hesseig<S>(n, data, pat, out);
}

int main(int argc, char** argv) {
    Args a(argc, argv); Out out(a.out);
    if (!a.replay.empty()) {
        std::ifstream f(a.replay); std::string t0((std::istreambuf_iterator<char>(f)), {}); std::string t; for (char ch : t0) if (!std::isspace((unsigned char) ch)) t += ch;   // indentation-insensitive
        std::string op = parse_str(t, "op"), sc = parse_str(t, "scalar"), pat = parse_str(t, "pattern");
        if (op == "hist") {   // a history on one object: the replay carries the request line
            auto pl = t0.find("\"line\""); Hist h; bool okp = false;
            if (pl != std::string::npos) { auto q0 = t0.find('"', t0.find(':', pl)); auto q1 = q0 == std::string::npos ? q0 : t0.find('"', q0 + 1); if (q1 != std::string::npos) okp = parse_hist(t0.substr(q0 + 1, q1 - q0 - 1), h); }
            if (okp) { if (sc == "float") run_hist_cls<float>(h, out, false); else if (sc == "longdouble") run_hist_cls<long double>(h, out, false); else run_hist_cls<double>(h, out, true); }
            out.finish(); return out.nfail ? 1 : 0;
        }
        if (op == "probe_1x1") {
            int pr = probe_tri_1x1();
            if (pr) out.fail(pr == 1 ? "trideig-1x1-abort" : "trideig-1x1-wrong", "TridiagEigen<double>::compute on the 1x1 matrix [3] " + std::string(pr == 1 ? "terminated the process" : "returned wrong numbers"), "{\"op\":\"probe_1x1\",\"scalar\":\"double\",\"n\":1,\"pattern\":\"one_by_one\",\"size_class\":\"1\"}");
            out.finish(); return out.nfail ? 1 : 0;
        }
        auto pn = t.find("\"n\":"); int n = pn == std::string::npos ? 0 : std::atoi(t.c_str() + pn + 4);
        std::vector<double> data = parse_bits(t);
        if (n >= 1 && ((op == "trideig" && (int) data.size() == 2 * n - 1) || (op != "trideig" && (int) data.size() == n * n))) {
            if (sc == "float") run_oracle<float>(op, n, data, pat, out); else if (sc == "longdouble") run_oracle<long double>(op, n, data, pat, out); else run_oracle<double>(op, n, data, pat, out);
            if (sc == "double" || sc.empty()) { if (op == "trideig") corr_trideig(n, data, out); else if (op == "schur") corr_schur(n, data, out); else corr_hesseig(n, data, out); }
        }
        out.finish(); return out.nfail ? 1 : 0;
    }
    const bool th = a.thorough();
    corr_lits(out);
    // ---- tridiagonal
    { Rng g(a.seed, 91);
      const int N = th ? 2500 : 350;
      for (int t = 0; t < N; t++) {
          int pat = t < 2 * NTPAT ? t % NTPAT : (int) g.below(NTPAT); int n = t < NTPAT ? 2 + t % 4 : pick_size(g, th);
          std::vector<double> data = gen_tridiag(g, n, pat, 150);
          { std::ofstream lc(a.out + "/lastcase.txt"); lc << "trideig n=" << n << " pattern=" << TPAT[pat]; }
          corr_trideig(n, data, out); oracle_trideig<double>(n, data, TPAT[pat], out); oracle_trideig<long double>(n, data, TPAT[pat], out);
          std::vector<double> df = gen_tridiag(g, n, pat, 15); round_to<float>(df); oracle_trideig<float>(n, df, TPAT[pat], out);
          out.count(std::string("pattern_trideig_") + TPAT[pat]); out.count(n <= 4 ? "size_2_4" : n <= 12 ? "size_5_12" : n <= 32 ? "size_13_32" : "size_33_64");
      }
      // the iteration-cap path: only reachable with non-finite data (outside the property's domain; correspondence only)
      for (int t = 0; t < 6; t++) { int n = 2 + t; std::vector<double> data = gen_tridiag(g, n, 0, 150); data[g.below(data.size())] = std::numeric_limits<double>::quiet_NaN(); corr_trideig(n, data, out); out.count("corr_trideig_nan_input"); }
    }
    // ---- Hessenberg: Schur and eigen-solver on the same matrices
    { Rng g(a.seed, 92);
      const int N = th ? 2200 : 300;
      for (int t = 0; t < N; t++) {
          int pat = t < 3 * NHPAT ? t % NHPAT : (int) g.below(NHPAT); int n = t < NHPAT ? 2 + t % 4 : (t < 2 * NHPAT ? 2 + t % 2 : pick_size(g, th));
          std::vector<double> data = gen_hess(g, n, pat, 150);
          { std::ofstream lc(a.out + "/lastcase.txt"); lc << "hessenberg n=" << n << " pattern=" << HPAT[pat]; }
          corr_schur(n, data, out); corr_hesseig(n, data, out);
          oracle_schur<double>(n, data, HPAT[pat], out); oracle_hesseig<double>(n, data, HPAT[pat], out);
          oracle_schur<long double>(n, data, HPAT[pat], out); oracle_hesseig<long double>(n, data, HPAT[pat], out);
          std::vector<double> df = gen_hess(g, n, pat, 15); round_to<float>(df); oracle_schur<float>(n, df, HPAT[pat], out); oracle_hesseig<float>(n, df, HPAT[pat], out);
          out.count(std::string("pattern_hess_") + HPAT[pat]); out.count(n <= 4 ? "size_2_4" : n <= 12 ? "size_5_12" : n <= 32 ? "size_13_32" : "size_33_64");
      }
    }
    // ---- near-defective 2x2 blocks (finding F20): three fixed double-precision witnesses + a dedicated random stream
    { const uint64_t W[3][4] = {{4608831790568398234ull, 13830206208580903218ull, 4606131099394125190ull, 13825631670748025120ull},
                                {4612956002231755606ull, 13828933401783329727ull, 4607822097253606409ull, 4603836481333505072ull},
                                {4609043037184378236ull, 4604497755223562667ull, 13824586524572669942ull, 4599595944607761376ull}};
      for (int w = 0; w < 3; w++) { std::vector<double> data(4); for (int k = 0; k < 4; k++) data[k] = bitsd(W[w][k]);
          corr_schur(2, data, out); corr_hesseig(2, data, out); oracle_schur<double>(2, data, "defective_2x2_fixed", out); oracle_hesseig<double>(2, data, "defective_2x2_fixed", out); out.count("pattern_hess_defective_2x2_fixed"); }
      Rng g(a.seed, 94);
      const int N = th ? 3000 : 400;
      for (int t = 0; t < N; t++) { int n = g.coin(0.8) ? 2 : g.range(3, 6); std::vector<double> data = gen_hess(g, n, 18, 150);
          corr_hesseig(n, data, out); oracle_schur<double>(n, data, HPAT[18], out); oracle_hesseig<double>(n, data, HPAT[18], out); oracle_hesseig<long double>(n, data, HPAT[18], out);
          out.count("pattern_hess_defective_2x2_stream"); }
    }
    // ---- complex division primitive
    { Rng g(a.seed, 93);
      const int N = th ? 20000 : 3000;
      for (int t = 0; t < N; t++) {
          int m = t % 5; double v[4];
          for (int k = 0; k < 4; k++) v[k] = m == 0 ? g.sym() : m == 1 ? (double) g.range(-3, 3) : m == 2 ? std::ldexp(g.sym(), g.range(-60, 60)) : m == 3 ? (g.coin(0.3) ? 0.0 : g.sym()) : std::ldexp(g.sym(), g.range(-300, 300));
          if (v[2] == 0 && v[3] == 0) v[2] = 1.0;
          corr_cdiv(v[0], v[1], v[2], v[3], out);
      }
    }
    // ---- histories on one object (reuse, views, accessor orders): three classes x three scalar types
    { const int pr = probe_tri_1x1(); out.count("probe_trideig_1x1_ok", pr == 0);
      if (pr) out.fail(pr == 1 ? "trideig-1x1-abort" : "trideig-1x1-wrong", "TridiagEigen<double>::compute on the 1x1 matrix [3] " + std::string(pr == 1 ? "terminated the process (child process; Eigen assertion / out-of-bounds read: maxCoeff() of the empty sub-diagonal)" : "returned wrong numbers"),
                       "{\"op\":\"probe_1x1\",\"scalar\":\"double\",\"n\":1,\"pattern\":\"one_by_one\",\"size_class\":\"1\"}");
      const bool tri1ok = pr == 0;
      const int N = th ? 1500 : 160;
      for (int cls = 0; cls < 3; cls++) for (int t = 0; t < N; t++) {
          { std::ofstream lc(a.out + "/lastcase.txt"); lc << "hist cls=" << CLSNAME[cls] << " index=" << t; }
          Rng g(a.seed, 95 + cls, t); Hist h = gen_hist(g, cls, 150, th, tri1ok, &out);
          { std::ofstream lc(a.out + "/lastcase.txt"); lc << hist_line(h); }
          run_hist_cls<double>(h, out, true); run_hist_cls<long double>(h, out, false);
          Rng gf(a.seed, 98 + cls, t); Hist hf = gen_hist(gf, cls, 15, th, tri1ok, nullptr); for (HStep& st : hf.steps) round_to<float>(st.data);
          { std::ofstream lc(a.out + "/lastcase.txt"); lc << hist_line(hf); }
          run_hist_cls<float>(hf, out, false);
      }
    }
    for (int k = 0; k < 6; k++) out.count(std::string("maxratio_x1000_") + (k == 0 ? "trideig_res" : k == 1 ? "trideig_orth" : k == 2 ? "schur_res" : k == 3 ? "schur_orth" : k == 4 ? "hesseig_res" : "hesseig_unit"), (long) (g_max_ratio[k] * 1000));
    out.finish();
    return 0;
}
