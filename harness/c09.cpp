// C09 harness: real TridiagEigen / UpperHessenbergSchur / UpperHessenbergEigen  vs  Lean model (double, bit patterns),
// plus the property's own predicates evaluated in long double on the real classes for float, double and long double.
#include "common.h"
#include <cctype>
#include <Eigen/Core>
#include <Spectra/LinAlg/TridiagEigen.h>
#include <Spectra/LinAlg/UpperHessenbergSchur.h>
#include <Spectra/LinAlg/UpperHessenbergEigen.h>
// guarded friend access: the (overwritten) Schur factor kept inside UpperHessenbergEigen, read-only
struct SpectraVerifAccess {
    template <class S> static const Eigen::Matrix<S, Eigen::Dynamic, Eigen::Dynamic>& matT(const Spectra::UpperHessenbergEigen<S>& e) { return e.m_matT; }
};
using namespace vh;
typedef long double LD;
typedef Eigen::Matrix<LD, Eigen::Dynamic, Eigen::Dynamic> MatL;
typedef Eigen::Matrix<LD, Eigen::Dynamic, 1> VecL;
typedef Eigen::Matrix<std::complex<LD>, Eigen::Dynamic, Eigen::Dynamic> CMatL;

// ---- oracle constants (stated in evidence): residual <= C_RES * n * eps(Scalar) * ||A||_F, orthogonality <= C_ORTH * n * eps
static const LD C_RES = 200, C_ORTH = 100, C_UNIT = 50;

template <class S> struct SName { static const char* get() { return "double"; } };
template <> struct SName<float> { static const char* get() { return "float"; } };
template <> struct SName<long double> { static const char* get() { return "longdouble"; } };

// numbers travel as bit patterns; NaN (sign/payload are not modelled) as the token `nan`
static std::string fb(double x) { return x != x ? std::string("nan") : str(dbits(x)); }

template <class M> static bool all_finite(const M& m) { for (long j = 0; j < m.cols(); j++) for (long i = 0; i < m.rows(); i++) if (!std::isfinite((LD) m(i, j))) return false; return true; }

// replay json: op, scalar, n, pattern, zero_matrix, data as double bit patterns (inputs are generated in double and cast to Scalar)
static std::string replay_json(const std::string& op, const char* scalar, int n, const std::string& pat, const std::vector<double>& data) {
    bool z = true; double mx = 0; for (double x : data) { if (x != 0) z = false; if (std::fabs(x) > mx) mx = std::fabs(x); }
    const bool isf = std::string(scalar) == "float";
    const char* mag = z ? "zero" : mx >= (isf ? 1e10 : 1e100) ? "huge" : mx <= (isf ? 1e-10 : 1e-100) ? "tiny" : "normal";
    std::string s = "{\"op\":\"" + op + "\",\"scalar\":\"" + scalar + "\",\"n\":" + str(n) + ",\"pattern\":\"" + pat + "\",\"zero_matrix\":" + (z ? "1" : "0") + ",\"magnitude_class\":\"" + mag + "\",\"size_class\":\"" + (n == 1 ? "1" : n == 2 ? "2" : "ge3") + "\",\"bits\":[";
    for (size_t i = 0; i < data.size(); i++) { if (i) s += ","; s += str(dbits(data[i])); }
    return s + "]}";
}

static LD g_max_ratio[8] = {0, 0, 0, 0, 0, 0, 0, 0};   // measured worst ratios (for the evidence file)
static void note_ratio(int k, LD r) { if (r > g_max_ratio[k]) g_max_ratio[k] = r; }

// ------------------------------------------------------------------ tridiagonal
// data = d[0..n-1], e[0..n-2]
template <class S> static void oracle_trideig(int n, const std::vector<double>& data, const std::string& pat, Out& out) {
    typedef Eigen::Matrix<S, Eigen::Dynamic, Eigen::Dynamic> Mat;
    Mat T = Mat::Zero(n, n);
    for (int i = 0; i < n; i++) T(i, i) = (S) data[i];
    for (int i = 0; i + 1 < n; i++) { T(i + 1, i) = (S) data[n + i]; T(i, i + 1) = (S) data[n + i]; }
    const std::string rj = replay_json("trideig", SName<S>::get(), n, pat, data);
    const std::string tag = std::string("oracle_trideig_") + SName<S>::get();
    Spectra::TridiagEigen<S> eig;
    try { eig.compute(T); }
    catch (const std::exception& e) { out.fail("trideig-exception", std::string("TridiagEigen<") + SName<S>::get() + "> threw on a finite symmetric tridiagonal matrix: " + e.what(), rj); out.count(tag + "_throw"); return; }
    out.count(tag);
    Mat Z = eig.eigenvectors(); Eigen::Matrix<S, Eigen::Dynamic, 1> D = eig.eigenvalues();
    if (Z.rows() != n || Z.cols() != n || D.size() != n) { out.fail("trideig-shape", "wrong result dimensions", rj); return; }
    if (!all_finite(Z) || !all_finite(D)) { out.fail("trideig-nan", std::string("TridiagEigen<") + SName<S>::get() + "> returned a non-finite value without throwing", rj); return; }
    MatL TL = T.template cast<LD>(), ZL = Z.template cast<LD>(); VecL DL = D.template cast<LD>();
    const LD eps = std::numeric_limits<S>::epsilon();
    const LD nrm = TL.norm();
    MatL R = TL * ZL - ZL * DL.asDiagonal();
    LD res = R.cwiseAbs().maxCoeff();
    LD orth = (ZL.transpose() * ZL - MatL::Identity(n, n)).cwiseAbs().maxCoeff();
    if (nrm > 0) note_ratio(0, res / (n * eps * nrm));
    note_ratio(1, orth / (n * eps));
    if (res > C_RES * n * eps * nrm) out.fail("trideig-residual", std::string("TridiagEigen<") + SName<S>::get() + ">: max|TZ - ZD| = " + str((double) res) + " exceeds " + str((double) C_RES) + "*n*eps*||T||_F = " + str((double) (C_RES * n * eps * nrm)), rj);
    if (orth > C_ORTH * n * eps) out.fail("trideig-orth", std::string("TridiagEigen<") + SName<S>::get() + ">: max|Z'Z - I| = " + str((double) orth) + " exceeds " + str((double) C_ORTH) + "*n*eps", rj);
}

static void corr_trideig(int n, const std::vector<double>& data, Out& out) {
    Eigen::MatrixXd T = Eigen::MatrixXd::Zero(n, n);
    for (int i = 0; i < n; i++) T(i, i) = data[i];
    for (int i = 0; i + 1 < n; i++) { T(i + 1, i) = data[n + i]; T(i, i + 1) = data[n + i]; }
    std::string rq = "trideig " + str(n); for (double x : data) rq += " " + str(dbits(x));
    std::string rs;
    Spectra::TridiagEigen<double> eig;
    try {
        eig.compute(T);
        rs = "ok";
        const Eigen::VectorXd& D = eig.eigenvalues(); const Eigen::MatrixXd& Z = eig.eigenvectors();
        for (int i = 0; i < n; i++) rs += " " + fb(D[i]);
        for (int j = 0; j < n; j++) for (int i = 0; i < n; i++) rs += " " + fb(Z(i, j));
    } catch (const std::exception& e) { rs = std::string("throw std::runtime_error ") + e.what(); out.count("corr_trideig_throw"); }
    out.corr(rq, rs); out.count("corr_trideig");
}

// ------------------------------------------------------------------ Hessenberg: Schur
// data = H column-major, n*n
template <class S> static Eigen::Matrix<S, Eigen::Dynamic, Eigen::Dynamic> mat_of(int n, const std::vector<double>& data) {
    Eigen::Matrix<S, Eigen::Dynamic, Eigen::Dynamic> H(n, n);
    for (int j = 0; j < n; j++) for (int i = 0; i < n; i++) H(i, j) = (S) data[i + (size_t) j * n];
    return H;
}

template <class S> static void oracle_schur(int n, const std::vector<double>& data, const std::string& pat, Out& out) {
    typedef Eigen::Matrix<S, Eigen::Dynamic, Eigen::Dynamic> Mat;
    Mat H = mat_of<S>(n, data);
    const std::string rj = replay_json("schur", SName<S>::get(), n, pat, data);
    const std::string tag = std::string("oracle_schur_") + SName<S>::get();
    Spectra::UpperHessenbergSchur<S> sch;
    try { sch.compute(H); }
    catch (const std::runtime_error& e) { if (pat == "day_stall") { out.count(tag + "_cap_exception_allowed"); return; }   // the property allows the documented iteration-limit exception; this family is built to stall
        out.fail("schur-exception", std::string("UpperHessenbergSchur<") + SName<S>::get() + "> threw on a finite upper Hessenberg matrix: " + e.what(), rj); out.count(tag + "_throw"); return; }
    catch (const std::exception& e) { out.fail("schur-exception", std::string("UpperHessenbergSchur<") + SName<S>::get() + "> threw on a finite upper Hessenberg matrix: " + e.what(), rj); out.count(tag + "_throw"); return; }
    out.count(tag);
    Mat T = sch.matrix_T(), U = sch.matrix_U();
    if (!all_finite(T) || !all_finite(U)) { out.fail("schur-nan", std::string("UpperHessenbergSchur<") + SName<S>::get() + "> returned a non-finite value without throwing", rj); return; }
    for (int j = 0; j < n; j++) for (int i = j + 2; i < n; i++) if (T(i, j) != S(0)) { out.fail("schur-not-quasi-triangular", "T(" + str(i) + "," + str(j) + ") is not exactly zero", rj); return; }
    for (int i = 0; i + 2 < n; i++) if (T(i + 1, i) != S(0) && T(i + 2, i + 1) != S(0)) { out.fail("schur-not-quasi-triangular", "two consecutive nonzero sub-diagonal entries at " + str(i), rj); return; }
    MatL HL = H.template cast<LD>(), TL = T.template cast<LD>(), UL = U.template cast<LD>();
    const LD eps = std::numeric_limits<S>::epsilon(); const LD nrm = HL.norm();
    LD res = (UL * TL * UL.transpose() - HL).cwiseAbs().maxCoeff();
    LD orth = (UL.transpose() * UL - MatL::Identity(n, n)).cwiseAbs().maxCoeff();
    if (nrm > 0) note_ratio(2, res / (n * eps * nrm));
    note_ratio(3, orth / (n * eps));
    if (res > C_RES * n * eps * nrm) out.fail("schur-residual", std::string("UpperHessenbergSchur<") + SName<S>::get() + ">: max|U T U' - H| = " + str((double) res) + " exceeds " + str((double) C_RES) + "*n*eps*||H||_F = " + str((double) (C_RES * n * eps * nrm)), rj);
    if (orth > C_ORTH * n * eps) out.fail("schur-orth", std::string("UpperHessenbergSchur<") + SName<S>::get() + ">: max|U'U - I| = " + str((double) orth) + " exceeds " + str((double) C_ORTH) + "*n*eps", rj);
}

static void corr_schur(int n, const std::vector<double>& data, Out& out) {
    Eigen::MatrixXd H = mat_of<double>(n, data);
    std::string rq = "schur " + str(n); for (double x : data) rq += " " + str(dbits(x));
    std::string rs;
    Spectra::UpperHessenbergSchur<double> sch;
    try {
        sch.compute(H);
        rs = "ok";
        const Eigen::MatrixXd& T = sch.matrix_T(); const Eigen::MatrixXd& U = sch.matrix_U();
        for (int j = 0; j < n; j++) for (int i = 0; i < n; i++) rs += " " + fb(T(i, j));
        for (int j = 0; j < n; j++) for (int i = 0; i < n; i++) rs += " " + fb(U(i, j));
    } catch (const std::exception& e) { rs = std::string("throw std::runtime_error ") + e.what(); out.count("corr_schur_throw"); }
    out.corr(rq, rs); out.count("corr_schur");
}

// ------------------------------------------------------------------ Hessenberg: eigen-solver
template <class S> static void oracle_hesseig(int n, const std::vector<double>& data, const std::string& pat, Out& out) {
    typedef Eigen::Matrix<S, Eigen::Dynamic, Eigen::Dynamic> Mat;
    typedef std::complex<S> C; typedef std::complex<LD> CL;
    Mat H = mat_of<S>(n, data);
    const std::string rj = replay_json("hesseig", SName<S>::get(), n, pat, data);
    const std::string tag = std::string("oracle_hesseig_") + SName<S>::get();
    Spectra::UpperHessenbergEigen<S> eig;
    try { eig.compute(H); }
    catch (const std::runtime_error& e) { if (pat == "day_stall") { out.count(tag + "_cap_exception_allowed"); return; }
        out.fail("hesseig-exception", std::string("UpperHessenbergEigen<") + SName<S>::get() + "> threw on a finite upper Hessenberg matrix: " + e.what(), rj); out.count(tag + "_throw"); return; }
    catch (const std::exception& e) { out.fail("hesseig-exception", std::string("UpperHessenbergEigen<") + SName<S>::get() + "> threw on a finite upper Hessenberg matrix: " + e.what(), rj); out.count(tag + "_throw"); return; }
    out.count(tag);
    Eigen::Matrix<C, Eigen::Dynamic, 1> ev = eig.eigenvalues(); Eigen::Matrix<C, Eigen::Dynamic, Eigen::Dynamic> V = eig.eigenvectors();
    if (ev.size() != n || V.rows() != n || V.cols() != n) { out.fail("hesseig-shape", "wrong result dimensions", rj); return; }
    bool fin = true;
    for (int i = 0; i < n; i++) { if (!std::isfinite((LD) ev[i].real()) || !std::isfinite((LD) ev[i].imag())) fin = false; for (int k = 0; k < n; k++) if (!std::isfinite((LD) V(k, i).real()) || !std::isfinite((LD) V(k, i).imag())) fin = false; }
    if (!fin) { out.fail("hesseig-nan", std::string("UpperHessenbergEigen<") + SName<S>::get() + "> returned a non-finite value without throwing", rj); return; }
    // exact-zero / adjacent exact conjugates, positive imaginary part first
    for (int i = 0; i < n;) {
        if (ev[i].imag() == S(0)) { i++; continue; }
        if (!(ev[i].imag() > S(0))) { out.fail("hesseig-conj-order", "eigenvalue " + str(i) + " has negative imaginary part but does not follow its conjugate", rj); return; }
        if (i + 1 >= n || !(ev[i + 1].real() == ev[i].real() && ev[i + 1].imag() == -ev[i].imag())) { out.fail("hesseig-conj-exact", "complex eigenvalue " + str(i) + " is not followed by its exact conjugate", rj); return; }
        i += 2;
    }
    const LD eps = std::numeric_limits<S>::epsilon();
    MatL HL = H.template cast<LD>(); const LD nrm = HL.norm();
    CMatL HC = HL.template cast<CL>();
    for (int j = 0; j < n; j++) {
        Eigen::Matrix<CL, Eigen::Dynamic, 1> x(n); for (int k = 0; k < n; k++) x[k] = CL((LD) V(k, j).real(), (LD) V(k, j).imag());
        CL lam((LD) ev[j].real(), (LD) ev[j].imag());
        LD xn = x.norm();
        LD res = (HC * x - lam * x).norm();
        note_ratio(5, std::fabs(xn - 1) / (n * eps));
        if (nrm > 0) note_ratio(4, res / (n * eps * nrm));
        if (std::fabs(xn - 1) > C_UNIT * n * eps) { out.fail("hesseig-unit", std::string("UpperHessenbergEigen<") + SName<S>::get() + ">: eigenvector " + str(j) + " has norm " + str((double) xn), rj); return; }
        // a 2x2 diagonal block that UpperHessenbergSchur left unsplit but whose extracted imaginary part is exactly 0: both values are
        // flagged real, and the real-eigenvalue back-substitution then ignores the block's sub-diagonal entry (finding F20, fixed; m_matT is
        // not resized on the zero-matrix early exit, hence the size guard)
        const auto& MT = SpectraVerifAccess::matT(eig);
        const bool unsplit = MT.rows() == n && MT.cols() == n && ev[j].imag() == S(0) && ((j + 1 < n && MT(j + 1, j) != S(0)) || (j > 0 && MT(j, j - 1) != S(0)));
        if (res > C_RES * n * eps * nrm && unsplit) { out.fail("hesseig-residual-unsplit-block", std::string("UpperHessenbergEigen<") + SName<S>::get() + ">: ||H x - lambda x|| = " + str((double) res) + " for pair " + str(j) + ": eigenvalue reported real (imag == 0) although it comes from an unsplit 2x2 block of the Schur form", rj); return; }
        if (res > C_RES * n * eps * nrm) { out.fail("hesseig-residual", std::string("UpperHessenbergEigen<") + SName<S>::get() + ">: ||H x - lambda x|| = " + str((double) res) + " for pair " + str(j) + " exceeds " + str((double) C_RES) + "*n*eps*||H||_F = " + str((double) (C_RES * n * eps * nrm)), rj); return; }
    }
}

static void corr_hesseig(int n, const std::vector<double>& data, Out& out) {
    Eigen::MatrixXd H = mat_of<double>(n, data);
    std::string rq = "hesseig " + str(n); for (double x : data) rq += " " + str(dbits(x));
    std::string rs;
    Spectra::UpperHessenbergEigen<double> eig;
    try {
        eig.compute(H);
        rs = "ok";
        const Eigen::VectorXcd& ev = eig.eigenvalues(); Eigen::MatrixXcd V = eig.eigenvectors();
        for (int i = 0; i < n; i++) rs += " " + fb(ev[i].real()) + " " + fb(ev[i].imag());
        // eigenvector entries: signed zeros canonicalised (x + 0.0)
        for (int j = 0; j < n; j++) for (int i = 0; i < n; i++) rs += " " + fb(V(i, j).real() + 0.0) + " " + fb(V(i, j).imag() + 0.0);
    } catch (const std::exception& e) { rs = std::string("throw std::runtime_error ") + e.what(); out.count("corr_hesseig_throw"); }
    out.corr(rq, rs); out.count("corr_hesseig");
}

// complex division as compiled (libgcc __divdc3 through std::complex<double>::operator/): validates the model's port
static void corr_cdiv(double a, double b, double c, double d, Out& out) {
    volatile double va = a, vb = b, vc = c, vd = d;
    std::complex<double> q = std::complex<double>(va, vb) / std::complex<double>(vc, vd);
    out.corr("cdiv " + str(dbits(a)) + " " + str(dbits(b)) + " " + str(dbits(c)) + " " + str(dbits(d)), fb(q.real() + 0.0) + " " + fb(q.imag() + 0.0));
    out.count("corr_cdiv");
}

// decimal literals of the C++ (0.5, 0.75, -0.4375, 0.964) as compiled vs. as the model reads them
static void corr_lits(Out& out) {
    volatile double a = 0.5, b = 0.75, c = -0.4375, d = 0.964;
    out.corr("lits", str(dbits(a)) + " " + str(dbits(b)) + " " + str(dbits(c)) + " " + str(dbits(d)));
}

// ------------------------------------------------------------------ generators
static double pw10(int e) { return std::pow(10.0, e); }

static const char* TPAT[] = {"random", "integer", "graded", "zerosub", "repeated", "toeplitz", "wilkinson", "zero", "scaled_up", "scaled_down", "glued", "constdiag", "tinysub"};
static const int NTPAT = 13;
static std::vector<double> gen_tridiag(Rng& g, int n, int pat, int bigexp) {
    std::vector<double> v(2 * n - 1, 0.0);
    double* d = v.data(); double* e = v.data() + n;
    switch (pat) {
    case 0: for (int i = 0; i < n; i++) d[i] = g.sym(); for (int i = 0; i + 1 < n; i++) e[i] = g.sym(); break;
    case 1: for (int i = 0; i < n; i++) d[i] = g.range(-3, 3); for (int i = 0; i + 1 < n; i++) e[i] = g.range(-2, 2); break;
    case 2: { double dec = 16.0 / n; bool up = g.coin(); for (int i = 0; i < n; i++) { double s = std::pow(10.0, -dec * (up ? n - 1 - i : i)); d[i] = g.sym() * s; if (i + 1 < n) e[i] = g.sym() * s; } break; }
    case 3: for (int i = 0; i < n; i++) d[i] = g.sym(); for (int i = 0; i + 1 < n; i++) e[i] = g.coin(0.4) ? 0.0 : g.sym(); break;
    case 4: { double a = g.range(-2, 2), b = g.range(-2, 2); for (int i = 0; i < n; i++) d[i] = g.coin() ? a : b; for (int i = 0; i + 1 < n; i++) e[i] = g.coin(0.5) ? 0.0 : (g.coin() ? 1e-9 : 1.0) * g.range(-1, 1); break; }
    case 5: { double a = g.range(-2, 2), b = g.coin() ? 1.0 : -1.0; for (int i = 0; i < n; i++) d[i] = a; for (int i = 0; i + 1 < n; i++) e[i] = b; break; }
    case 6: for (int i = 0; i < n; i++) d[i] = std::fabs((n - 1) / 2.0 - i); for (int i = 0; i + 1 < n; i++) e[i] = 1.0; break;
    case 7: break;
    case 8: for (int i = 0; i < n; i++) d[i] = g.sym() * pw10(bigexp); for (int i = 0; i + 1 < n; i++) e[i] = g.sym() * pw10(bigexp); break;
    case 9: for (int i = 0; i < n; i++) d[i] = g.sym() * pw10(-bigexp); for (int i = 0; i + 1 < n; i++) e[i] = g.sym() * pw10(-bigexp); break;
    case 10: { for (int i = 0; i < n; i++) d[i] = std::fabs((double) ((i % 5) - 2)); for (int i = 0; i + 1 < n; i++) e[i] = ((i + 1) % 5 == 0) ? 1e-8 : 1.0; break; }
    case 11: { double a = g.sym(); for (int i = 0; i < n; i++) d[i] = a; for (int i = 0; i + 1 < n; i++) e[i] = g.sym(); break; }
    default: for (int i = 0; i < n; i++) d[i] = g.sym(); for (int i = 0; i + 1 < n; i++) e[i] = g.sym() * std::ldexp(1.0, -g.range(20, 60)); break;
    }
    return v;
}

static const char* HPAT[] = {"random", "integer", "graded", "zerosub", "triangular_repeated", "companion", "companion_defective", "jordan", "zero", "scaled_up", "scaled_down",
                             "cyclic", "orthogonal", "blockrep", "symtridiag", "identity", "tinysub", "jordan_perturbed", "defective_2x2", "day_stall"};
static const int NHPAT = 20;
static std::vector<double> gen_hess(Rng& g, int n, int pat, int bigexp) {
    std::vector<double> v((size_t) n * n, 0.0);
    auto H = [&](int i, int j) -> double& { return v[i + (size_t) j * n]; };
    auto fill_random = [&](double sc) { for (int j = 0; j < n; j++) for (int i = 0; i <= std::min(n - 1, j + 1); i++) H(i, j) = g.sym() * sc; };
    switch (pat) {
    case 0: fill_random(1.0); break;
    case 1: for (int j = 0; j < n; j++) for (int i = 0; i <= std::min(n - 1, j + 1); i++) H(i, j) = g.range(-3, 3); break;
    case 2: { double dec = 16.0 / n; bool up = g.coin(); fill_random(1.0); for (int j = 0; j < n; j++) for (int i = 0; i < n; i++) H(i, j) *= std::pow(10.0, -dec * (up ? (n - 1 - i) : i)); break; }
    case 3: fill_random(1.0); for (int i = 0; i + 1 < n; i++) if (g.coin(0.4)) H(i + 1, i) = 0.0; break;
    case 4: { double a = g.range(-2, 2), b = g.range(-2, 2); for (int j = 0; j < n; j++) { for (int i = 0; i < j; i++) H(i, j) = g.coin(0.5) ? g.range(-2, 2) : 0; H(j, j) = g.coin() ? a : b; } break; }
    case 5: for (int j = 0; j < n; j++) H(0, j) = g.coin(0.5) ? g.sym() * 3 : (double) g.range(-3, 3); for (int i = 0; i + 1 < n; i++) H(i + 1, i) = 1.0; break;
    case 6: { // companion matrix of (x - r)^n : one Jordan block of size n, unreduced
        int r = g.range(-1, 2); std::vector<double> c(n + 1, 0.0); c[0] = 1.0;   // coefficients of (x-r)^n, highest first
        for (int k = 0; k < n; k++) { for (int i = k + 1; i >= 1; i--) c[i] -= r * c[i - 1]; }
        for (int j = 0; j < n; j++) H(0, j) = -c[j + 1]; for (int i = 0; i + 1 < n; i++) H(i + 1, i) = 1.0; break; }
    case 7: { double a = g.range(-2, 2); for (int i = 0; i < n; i++) { H(i, i) = a; if (i + 1 < n) H(i, i + 1) = 1.0; } break; }
    case 8: break;
    case 9: fill_random(pw10(bigexp)); break;
    case 10: fill_random(pw10(-bigexp)); break;
    case 11: for (int i = 0; i + 1 < n; i++) H(i + 1, i) = 1.0; H(0, n - 1) = g.coin() ? 1.0 : -1.0; break;
    case 12: { // product of n-1 plane rotations G_0 G_1 ... : an orthogonal upper Hessenberg matrix
        for (int i = 0; i < n; i++) H(i, i) = 1.0;
        for (int k = n - 2; k >= 0; k--) { double t = g.sym() * 3.14159; double c = std::cos(t), s = std::sin(t);
            for (int j = 0; j < n; j++) { double x = H(k, j), y = H(k + 1, j); H(k, j) = c * x - s * y; H(k + 1, j) = s * x + c * y; } }
        for (int j = 0; j < n; j++) for (int i = j + 2; i < n; i++) H(i, j) = 0.0; break; }
    case 13: { double a = g.range(-2, 2), b = g.range(1, 3); for (int i = 0; i + 1 < n; i += 2) { H(i, i) = a; H(i + 1, i + 1) = a; H(i, i + 1) = b; H(i + 1, i) = -b; if (i + 2 < n && g.coin()) H(i + 1, i + 2) = g.range(-1, 1); }
               if (n % 2) H(n - 1, n - 1) = a; break; }
    case 14: for (int i = 0; i < n; i++) { H(i, i) = g.sym(); if (i + 1 < n) { double e = g.sym(); H(i + 1, i) = e; H(i, i + 1) = e; } } break;
    case 15: { double a = g.coin() ? 1.0 : g.sym(); for (int i = 0; i < n; i++) H(i, i) = a; break; }
    case 16: fill_random(1.0); for (int i = 0; i + 1 < n; i++) H(i + 1, i) *= std::ldexp(1.0, -g.range(20, 70)); break;
    case 17: { double a = g.range(-2, 2); for (int i = 0; i < n; i++) { H(i, i) = a; if (i + 1 < n) { H(i, i + 1) = 1.0; H(i + 1, i) = g.coin(0.5) ? 0.0 : std::ldexp(g.sym(), -g.range(10, 50)); } } break; }
    case 18: { // leading 2x2 block [[d+2p, b], [c, d]] with b*c = -p^2 up to a few ulps (numerically double real eigenvalue), decoupled from an upper triangular rest
        double p = g.sym(), b = g.sym() * 3, dd = g.sym(); if (b == 0) b = 1; double c = -(p * p) / b; c = bitsd(dbits(c) + (uint64_t) (int64_t) g.range(-3, 3));
        H(0, 0) = dd + 2 * p; H(0, 1) = b; H(1, 0) = c; H(1, 1) = dd; for (int j = 2; j < n; j++) for (int i = 0; i <= j; i++) H(i, j) = g.sym(); break; }
    default: { // Day's matrix [0 1 0 0; 1 0 h 0; 0 -h 0 1; 0 0 1 0] (the Francis iteration stalls for 10..30+ sweeps, so the exceptional
        // shifts at iterations 10 and 30 are exercised), decoupled from an upper triangular rest; needs n >= 4, else random
        if (n < 4) { fill_random(1.0); break; }
        double h = std::pow(10.0, -2.0 - 4.0 * g.unit()); double sc = g.coin(0.3) ? std::ldexp(1.0, g.range(-20, 20)) : 1.0;
        H(0, 1) = sc; H(1, 0) = sc; H(1, 2) = h * sc; H(2, 1) = -h * sc; H(2, 3) = sc; H(3, 2) = sc;
        for (int j = 4; j < n; j++) for (int i = 4; i <= j; i++) H(i, j) = g.sym() * sc; break; }
    }
    return v;
}

static int pick_size(Rng& g, bool thorough) {
    if (thorough) { double u = g.unit(); if (u < 0.55) return g.range(2, 12); if (u < 0.9) return g.range(13, 32); return g.range(33, 64); }
    double u = g.unit(); if (u < 0.75) return g.range(2, 10); return g.range(11, 20);
}

template <class S> struct BigExp { static int get() { return 150; } };
template <> struct BigExp<float> { static int get() { return 15; } };

// a value representable in Scalar (float inputs are rounded to float first so that all scalar types see "the same" matrix class)
template <class S> static void round_to(std::vector<double>& v) { for (double& x : v) x = (double) (S) x; }

static std::vector<double> parse_bits(const std::string& t) {
    std::vector<double> v; auto pv = t.find("\"bits\":[");
    if (pv == std::string::npos) return v;
    const char* c = t.c_str() + pv + 8;
    while (*c && *c != ']') { char* e; unsigned long long u = std::strtoull(c, &e, 10); if (e == c) break; v.push_back(bitsd(u)); c = e; if (*c == ',') c++; }
    return v;
}
static std::string parse_str(const std::string& t, const std::string& key) {
    auto p = t.find("\"" + key + "\":\""); if (p == std::string::npos) return "";
    p += key.size() + 4; auto q = t.find('"', p); return t.substr(p, q - p);
}

template <class S> static void run_oracle(const std::string& op, int n, const std::vector<double>& data, const std::string& pat, Out& out) {
    if (op == "trideig") oracle_trideig<S>(n, data, pat, out);
    else if (op == "schur") oracle_schur<S>(n, data, pat, out);
    else oracle_hesseig<S>(n, data, pat, out);
}

int main(int argc, char** argv) {
    Args a(argc, argv); Out out(a.out);
    if (!a.replay.empty()) {
        std::ifstream f(a.replay); std::string t0((std::istreambuf_iterator<char>(f)), {}); std::string t; for (char ch : t0) if (!std::isspace((unsigned char) ch)) t += ch;   // indentation-insensitive
        std::string op = parse_str(t, "op"), sc = parse_str(t, "scalar"), pat = parse_str(t, "pattern");
        auto pn = t.find("\"n\":"); int n = pn == std::string::npos ? 0 : std::atoi(t.c_str() + pn + 4);
        std::vector<double> data = parse_bits(t);
        if (n >= 1 && ((op == "trideig" && (int) data.size() == 2 * n - 1) || (op != "trideig" && (int) data.size() == n * n))) {
            if (sc == "float") run_oracle<float>(op, n, data, pat, out); else if (sc == "longdouble") run_oracle<long double>(op, n, data, pat, out); else run_oracle<double>(op, n, data, pat, out);
            if (sc == "double" || sc.empty()) { if (op == "trideig") corr_trideig(n, data, out); else if (op == "schur") corr_schur(n, data, out); else corr_hesseig(n, data, out); }
        }
        out.finish(); return out.nfail ? 1 : 0;
    }
    const bool th = a.thorough();
    corr_lits(out);
    // ---- tridiagonal
    { Rng g(a.seed, 91);
      const int N = th ? 2500 : 350;
      for (int t = 0; t < N; t++) {
          int pat = t < 2 * NTPAT ? t % NTPAT : (int) g.below(NTPAT); int n = t < NTPAT ? 2 + t % 4 : pick_size(g, th);
          std::vector<double> data = gen_tridiag(g, n, pat, 150);
          { std::ofstream lc(a.out + "/lastcase.txt"); lc << "trideig n=" << n << " pattern=" << TPAT[pat]; }
          corr_trideig(n, data, out); oracle_trideig<double>(n, data, TPAT[pat], out); oracle_trideig<long double>(n, data, TPAT[pat], out);
          std::vector<double> df = gen_tridiag(g, n, pat, 15); round_to<float>(df); oracle_trideig<float>(n, df, TPAT[pat], out);
          out.count(std::string("pattern_trideig_") + TPAT[pat]); out.count(n <= 4 ? "size_2_4" : n <= 12 ? "size_5_12" : n <= 32 ? "size_13_32" : "size_33_64");
      }
      // the iteration-cap path: only reachable with non-finite data (outside the property's domain; correspondence only)
      for (int t = 0; t < 6; t++) { int n = 2 + t; std::vector<double> data = gen_tridiag(g, n, 0, 150); data[g.below(data.size())] = std::numeric_limits<double>::quiet_NaN(); corr_trideig(n, data, out); out.count("corr_trideig_nan_input"); }
    }
    // ---- Hessenberg: Schur and eigen-solver on the same matrices
    { Rng g(a.seed, 92);
      const int N = th ? 2200 : 300;
      for (int t = 0; t < N; t++) {
          int pat = t < 3 * NHPAT ? t % NHPAT : (int) g.below(NHPAT); int n = t < NHPAT ? 2 + t % 4 : (t < 2 * NHPAT ? 2 + t % 2 : pick_size(g, th));
          std::vector<double> data = gen_hess(g, n, pat, 150);
          { std::ofstream lc(a.out + "/lastcase.txt"); lc << "hessenberg n=" << n << " pattern=" << HPAT[pat]; }
          corr_schur(n, data, out); corr_hesseig(n, data, out);
          oracle_schur<double>(n, data, HPAT[pat], out); oracle_hesseig<double>(n, data, HPAT[pat], out);
          oracle_schur<long double>(n, data, HPAT[pat], out); oracle_hesseig<long double>(n, data, HPAT[pat], out);
          std::vector<double> df = gen_hess(g, n, pat, 15); round_to<float>(df); oracle_schur<float>(n, df, HPAT[pat], out); oracle_hesseig<float>(n, df, HPAT[pat], out);
          out.count(std::string("pattern_hess_") + HPAT[pat]); out.count(n <= 4 ? "size_2_4" : n <= 12 ? "size_5_12" : n <= 32 ? "size_13_32" : "size_33_64");
      }
    }
    // ---- near-defective 2x2 blocks (finding F20): three fixed double-precision witnesses + a dedicated random stream
    { const uint64_t W[3][4] = {{4608831790568398234ull, 13830206208580903218ull, 4606131099394125190ull, 13825631670748025120ull},
                                {4612956002231755606ull, 13828933401783329727ull, 4607822097253606409ull, 4603836481333505072ull},
                                {4609043037184378236ull, 4604497755223562667ull, 13824586524572669942ull, 4599595944607761376ull}};
      for (int w = 0; w < 3; w++) { std::vector<double> data(4); for (int k = 0; k < 4; k++) data[k] = bitsd(W[w][k]);
          corr_schur(2, data, out); corr_hesseig(2, data, out); oracle_schur<double>(2, data, "defective_2x2_fixed", out); oracle_hesseig<double>(2, data, "defective_2x2_fixed", out); out.count("pattern_hess_defective_2x2_fixed"); }
      Rng g(a.seed, 94);
      const int N = th ? 3000 : 400;
      for (int t = 0; t < N; t++) { int n = g.coin(0.8) ? 2 : g.range(3, 6); std::vector<double> data = gen_hess(g, n, 18, 150);
          corr_hesseig(n, data, out); oracle_schur<double>(n, data, HPAT[18], out); oracle_hesseig<double>(n, data, HPAT[18], out); oracle_hesseig<long double>(n, data, HPAT[18], out);
          out.count("pattern_hess_defective_2x2_stream"); }
    }
    // ---- complex division primitive
    { Rng g(a.seed, 93);
      const int N = th ? 20000 : 3000;
      for (int t = 0; t < N; t++) {
          int m = t % 5; double v[4];
          for (int k = 0; k < 4; k++) v[k] = m == 0 ? g.sym() : m == 1 ? (double) g.range(-3, 3) : m == 2 ? std::ldexp(g.sym(), g.range(-60, 60)) : m == 3 ? (g.coin(0.3) ? 0.0 : g.sym()) : std::ldexp(g.sym(), g.range(-300, 300));
          if (v[2] == 0 && v[3] == 0) v[2] = 1.0;
          corr_cdiv(v[0], v[1], v[2], v[3], out);
      }
    }
    for (int k = 0; k < 6; k++) out.count(std::string("maxratio_x1000_") + (k == 0 ? "trideig_res" : k == 1 ? "trideig_orth" : k == 2 ? "schur_res" : k == 3 ? "schur_orth" : k == 4 ? "hesseig_res" : "hesseig_unit"), (long) (g_max_ratio[k] * 1000));
    out.finish();
    return 0;
}
