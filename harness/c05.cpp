// C05 harness: histories of init / compute / accessor calls on every Arnoldi/Lanczos-family class of the REAL library;
// the property's own predicate is evaluated after every call (oracle), and for the classes the Lean solver model covers a
// correspondence request is written (same history replayed by the model, see Driver/C05.lean).
#include "solver_common.h"
#include <Eigen/LU>
using namespace sh;
typedef std::complex<double> CD;
typedef Eigen::MatrixXcd CMat;
typedef Eigen::VectorXcd CVec;

struct SpectraVerifAccess {
    template <class S> static auto& fac(S& s) { return s.m_fac; }
    template <class F> static std::string fachash(const F& f) {
        uint64_t h = 1469598103934665603ull; auto feed = [&h](double x) { uint64_t u = dbits(x + 0.0); for (int b = 0; b < 8; b++) { h ^= (u >> (8 * b)) & 0xff; h *= 1099511628211ull; } };
        feed(f.m_beta); const long m = f.m_m, n = f.m_n, k = f.m_k;
        for (long j = 0; j < m; j++) for (long i = 0; i < m; i++) feed(f.m_fac_H(i, j));
        for (long i = 0; i < n; i++) feed(f.m_fac_f[i]);
        for (long j = 0; j < k; j++) for (long i = 0; i < n; i++) feed(f.m_fac_V(i, j));
        return "k=" + str(k) + " beta=e:" + str(dbits(f.m_beta)) + " hash=" + str(h);
    }
    // Scalar = std::complex<double>: beta, then re and im of every entry of H, f and the first k columns of V
    template <class F> static std::string fachashc(const F& f) {
        uint64_t h = 1469598103934665603ull; auto feed = [&h](double x) { uint64_t u = dbits(x + 0.0); for (int b = 0; b < 8; b++) { h ^= (u >> (8 * b)) & 0xff; h *= 1099511628211ull; } };
        feed(f.m_beta); const long m = f.m_m, n = f.m_n, k = f.m_k;
        for (long j = 0; j < m; j++) for (long i = 0; i < m; i++) { feed(f.m_fac_H(i, j).real()); feed(f.m_fac_H(i, j).imag()); }
        for (long i = 0; i < n; i++) { feed(f.m_fac_f[i].real()); feed(f.m_fac_f[i].imag()); }
        for (long j = 0; j < k; j++) for (long i = 0; i < n; i++) { feed(f.m_fac_V(i, j).real()); feed(f.m_fac_V(i, j).imag()); }
        return "k=" + str(k) + " beta=e:" + str(dbits(f.m_beta)) + " hash=" + str(h);
    }
    template <class F> static std::string fachash32(const F& f) {
        uint64_t h = 1469598103934665603ull; auto feed = [&h](float x) { uint32_t u = fbits(x + 0.0f); for (int b = 0; b < 4; b++) { h ^= (u >> (8 * b)) & 0xff; h *= 1099511628211ull; } };
        feed(f.m_beta); const long m = f.m_m, n = f.m_n, k = f.m_k;
        for (long j = 0; j < m; j++) for (long i = 0; i < m; i++) feed(f.m_fac_H(i, j));
        for (long i = 0; i < n; i++) feed(f.m_fac_f[i]);
        for (long j = 0; j < k; j++) for (long i = 0; i < n; i++) feed(f.m_fac_V(i, j));
        return "k=" + str(k) + " beta=e:" + str(fbits(f.m_beta)) + " hash=" + str(h);
    }
};

// uniform view of one solver object
struct Api {
    std::string cls; bool gen = false; int n = 0, nev = 0, ncv = 0;
    std::function<void(const Vec*)> init;
    std::function<long(int, long, double, int)> compute;
    std::function<CVec()> evals;
    std::function<CMat(long, bool)> evecs;           // (nvec, all)
    std::function<int()> info; std::function<long()> niter; std::function<long()> nmatop;
    std::function<long()> truecount; std::function<void()> resetcount;
    std::function<LD(CD, const CVec&)> resid;        // ||A x - lambda B x|| / ((||A|| + |lambda| ||B||) ||x||)
    std::function<bool()> alias;
    std::function<std::string()> fachash;            // set for the classes the Lean solver model covers
    std::string req, resp;                           // correspondence request / response being built
    bool cplxvec = false;                            // eigenvector entries are printed as re im (general family, complex Hermitian)
    std::function<std::string(const Vec&)> v0bits;   // how init(v0) travels in the request (default: the real vector)
};

static bool herm_sel_ok(int r) { return r == 0 || r == 3 || r == 4 || r == 7 || r == 8; }
static bool herm_sort_ok(int r) { return r == 0 || r == 3 || r == 4 || r == 7; }
static bool gen_rule_ok(int r) { return r == 0 || r == 1 || r == 2 || r == 4 || r == 5 || r == 6; }
static LD rule_key(int rule, CD z) {
    switch (rule) { case 0: return -std::hypot((LD) z.real(), (LD) z.imag()); case 1: case 3: return -(LD) z.real(); case 2: return -std::fabs((LD) z.imag());
                    case 4: return std::hypot((LD) z.real(), (LD) z.imag()); case 5: case 7: return (LD) z.real(); case 6: return std::fabs((LD) z.imag()); default: return 0; }
}

struct Ctx { Out* out; uint64_t seed; long caseno; std::string desc; };

static std::string hist_json(const Ctx& c, const Api& a, const std::vector<Call>& calls, size_t upto) {
    std::string s = "{\"harness\":\"c05\",\"seed\":" + str(c.seed) + ",\"case\":" + str(c.caseno) + ",\"class\":\"" + a.cls + "\",\"n\":" + str(a.n) + ",\"nev\":" + str(a.nev) + ",\"ncv\":" + str(a.ncv) + ",\"desc\":\"" + jesc(c.desc) + "\",\"calls\":\"";
    for (size_t i = 0; i <= upto && i < calls.size(); i++) { const Call& k = calls[i];
        if (k.kind == 'I') s += "init(v);"; else if (k.kind == 'J') s += "init();"; else if (k.kind == 'C') s += "compute(" + str(k.sel) + "," + str(k.maxit) + "," + str(k.tol) + "," + str(k.sort) + ");"; else s += std::string(1, k.kind) + ";"; }
    return s + "\"}";
}

static std::string ev_bits(const Api& a, const CVec& e) { std::string r = " | k=" + str((long) e.size()); for (long i = 0; i < e.size(); i++) { r += " e:" + str(dbits(e[i].real())); if (a.gen) r += " e:" + str(dbits(e[i].imag())); } return r; }

// run one history; evaluate the oracle after every call
static void run_history(Api& a, const std::vector<Call>& calls, Ctx& c) {
    Out& out = *c.out;
    bool computed = false; bool inited = false;
    for (size_t ci = 0; ci < calls.size(); ci++) {
        const Call& k = calls[ci];
        auto rj = [&]() { return hist_json(c, a, calls, ci); };
        if (k.kind == 'I' || k.kind == 'J') {
            int info0 = a.info();
            if (a.fachash) a.req += (k.kind == 'I' ? std::string(" | I") + (a.v0bits ? a.v0bits(k.v0) : vec_bits(k.v0)) : std::string(" | J"));
            try { a.resetcount(); a.init(k.kind == 'I' ? &k.v0 : nullptr); inited = true; }
            catch (const std::invalid_argument&) { out.count("oracle_init_throw"); if (a.fachash) a.resp += " | throw std::invalid_argument"; continue; }
            if (a.fachash) a.resp += " | ok nmatop=" + str(a.nmatop());
            out.count("oracle_init");
            if (a.info() != info0) out.fail("init-changes-info", a.cls + ": init() changed info()", rj());
            if (a.niter() != 0) out.fail("init-niter", a.cls + ": num_iterations() != 0 after init()", rj());
            if (a.nmatop() != a.truecount()) out.fail("opcount", a.cls + ": num_operations() = " + str(a.nmatop()) + " but the operator was applied " + str(a.truecount()) + " times since init()", rj());
            if (a.evals().size() != 0 || a.evecs(0, true).cols() != 0) out.fail("init-accessors", a.cls + ": accessors not empty right after init()", rj());
            if (!computed && a.info() != (int) CompInfo::NotComputed) out.fail("before-compute", a.cls + ": info() != NotComputed before any compute()", rj());
            continue;
        }
        if (k.kind == 'E') {   // accessors before / between computes
            if (a.fachash) { a.req += " | E | S"; CVec e0 = a.evals(); a.resp += ev_bits(a, e0);
                a.resp += " | info=" + str(a.info()) + " niter=" + str(a.niter()) + " nmatop=" + str(a.nmatop()); }
            if (!computed) {
                out.count("oracle_precompute");
                if (a.info() != (int) CompInfo::NotComputed) out.fail("before-compute", a.cls + ": info() != NotComputed before any compute()", rj());
                if (a.evals().size() != 0 || a.evecs(0, true).cols() != 0 || a.evecs(3, false).cols() != 0) out.fail("before-compute", a.cls + ": accessors not empty before any compute()", rj());
            }
            continue;
        }
        // compute
        if (!inited) continue;     // compute() before any init() is outside the documented use (throws from the factorization)
        const bool selok = a.gen ? gen_rule_ok(k.sel) : herm_sel_ok(k.sel), sortok = a.gen ? gen_rule_ok(k.sort) : herm_sort_ok(k.sort);
        int info0 = a.info(); long niter0 = a.niter();
        long r = -1; bool threw = false; std::string ex;
        if (a.fachash) a.req += " | C " + str(k.sel) + " " + str(k.maxit) + " " + str(dbits(k.tol)) + " " + str(k.sort);
        try { r = a.compute(k.sel, k.maxit, k.tol, k.sort); }
        catch (const std::invalid_argument&) { threw = true; ex = "invalid_argument"; }
        catch (const std::runtime_error& e) { threw = true; ex = std::string("other:") + e.what(); if (a.fachash) a.resp += " | throw std::runtime_error"; }
        catch (const std::exception& e) { threw = true; ex = std::string("other:") + e.what(); if (a.fachash) a.resp += " | throw other"; }
        if (a.fachash && threw && ex == "invalid_argument") a.resp += " | throw std::invalid_argument";
        if (a.fachash && !threw) {
            a.resp += " | ret=" + str(r) + " info=" + str(a.info()) + " niter=" + str(a.niter()) + " nmatop=" + str(a.nmatop());
            a.req += " | E | V " + str(a.nev) + " | F";
            CVec e1 = a.evals(); a.resp += ev_bits(a, e1);
            CMat X1 = a.evecs(a.nev, false); a.resp += " | rows=" + str(a.n) + " cols=" + str((long) X1.cols()); for (long j = 0; j < X1.cols(); j++) for (long i = 0; i < X1.rows(); i++) { a.resp += " " + str(dbits(X1(i, j).real() + 0.0)); if (a.gen || a.cplxvec) a.resp += " " + str(dbits(X1(i, j).imag() + 0.0)); }
            a.resp += " | " + a.fachash();
        }
        if (threw) {
            out.count("oracle_compute_throw");
            if (selok && sortok) { if (ex != "invalid_argument") out.count("oracle_compute_runtime_error"); else out.fail("reject-valid-rule", a.cls + ": compute() rejected supported rules sel=" + str(k.sel) + " sort=" + str(k.sort), rj()); }
            else if (ex != "invalid_argument") out.fail("wrong-exception", a.cls + ": unsupported rule raised " + ex, rj());
            if (a.info() != info0) out.fail("throw-changes-info", a.cls + ": a throwing compute() changed info()", rj());
            if (a.niter() != niter0) out.fail("throw-changes-niter", a.cls + ": a throwing compute() changed num_iterations()", rj());
            continue;
        }
        computed = true; out.count("oracle_compute");
        if (!(selok && sortok)) { out.fail("accept-invalid-rule", a.cls + ": compute() accepted unsupported rule sel=" + str(k.sel) + " sort=" + str(k.sort), rj()); continue; }
        CVec ev = a.evals(); CMat X = a.evecs(0, true);
        if (r != ev.size() || r != X.cols()) out.fail("counts", a.cls + ": compute() returned " + str(r) + " but eigenvalues().size() = " + str((long) ev.size()) + ", eigenvectors().cols() = " + str((long) X.cols()), rj());
        if (r > a.nev || r < 0) out.fail("counts", a.cls + ": return value " + str(r) + " outside [0, nev]", rj());
        const int inf = a.info();
        if ((inf == (int) CompInfo::Successful) != (r == a.nev) || (inf != (int) CompInfo::Successful && inf != (int) CompInfo::NotConverging))
            out.fail("status", a.cls + ": info() = " + info_name((CompInfo) inf) + " with " + str(r) + " of " + str(a.nev) + " converged", rj());
        if (r == a.nev) out.count("oracle_successful"); else if (r > 0) out.count("oracle_partial"); else out.count("oracle_none");
        for (long m : {0L, 1L, r, (long) a.nev + 3}) {
            CMat Xm = a.evecs(m, false); long want = std::min(m, r);
            if (Xm.cols() != want) { out.fail("nvec", a.cls + ": eigenvectors(" + str(m) + ") has " + str((long) Xm.cols()) + " columns, expected " + str(want), rj()); break; }
            // "the first min(m, count) of those columns": equal up to rounding (V * Y is evaluated by different Eigen product kernels
            // for different column counts, so bitwise equality is not what the property promises)
            if (want > 0) { bool bad = Xm.rows() != X.rows(); if (!bad) { LD d = (LD) (Xm - X.leftCols(want)).norm(), sc = (LD) X.leftCols(want).norm(); bad = !(d <= 1e-12L * (1 + sc)); }
                if (bad) { out.fail("nvec", a.cls + ": eigenvectors(" + str(m) + ") is not the first " + str(want) + " columns of eigenvectors()", rj()); break; } }
        }
        for (long i = 0; i + 1 < ev.size(); i++)
            if (rule_key(k.sort, ev[i]) > rule_key(k.sort, ev[i + 1]) + 8 * 2.3e-16L * (std::fabs(rule_key(k.sort, ev[i])) + std::fabs(rule_key(k.sort, ev[i + 1])))) {   // keys are compared in double by the code: allow rounding-level ties
                out.fail("order", a.cls + ": eigenvalues not in the order of sorting rule " + str(k.sort) + " at position " + str(i), rj()); break; }
        // pairing: a permutation mismatch between values and vectors shows as a column that IS an eigenvector of another returned
        // eigenvalue (relative residual <= 1e-7) while it clearly is NOT one of its own (relative residual >= 1e-3);
        // resid returns ||A x - lambda B x|| / ((||A|| + |lambda| ||B||) ||x||)
        if (k.tol <= 1e-6)
            for (long i = 0; i < std::min<long>(ev.size(), X.cols()); i++) {
                LD own = a.resid(ev[i], X.col(i)); if (!(own >= 1e-3L)) continue;
                for (long j = 0; j < ev.size(); j++) if (j != i && a.resid(ev[j], X.col(i)) <= 1e-7L) {
                    out.fail("pairing", a.cls + ": eigenvector column " + str(i) + " is an eigenvector of returned eigenvalue " + str(j) + " (relative residual <= 1e-7) and not of eigenvalue " + str(i) + " (relative residual " + str((double) own) + ")", rj()); i = ev.size(); break; }
            }
        if (a.nmatop() != a.truecount()) out.fail("opcount", a.cls + ": num_operations() = " + str(a.nmatop()) + " but the operator was applied " + str(a.truecount()) + " times since init()", rj());
        long dn = a.niter() - niter0;
        if (dn < 1 || dn > k.maxit + 1) out.fail("maxit", a.cls + ": num_iterations() grew by " + str(dn) + " with maxit = " + str(k.maxit), rj());
        if (a.alias()) out.fail("op-alias", a.cls + ": operator was handed overlapping input/output vectors", rj());
    }
}

// ---- random histories ----
static std::vector<Call> gen_history(Rng& r, int n, bool gen, bool malformed) {
    std::vector<Call> h; int len = r.range(2, 7);
    static const int hsel[5] = {0, 3, 4, 7, 8}, hsort[4] = {0, 3, 4, 7}, grule[6] = {0, 1, 2, 4, 5, 6};
    if (r.coin(0.3)) { Call e; e.kind = 'E'; h.push_back(e); }
    bool need_init = true;
    for (int i = 0; i < len; i++) {
        Call k;
        if (need_init || r.coin(0.35)) { k.kind = r.coin(0.5) ? 'J' : 'I'; k.v0 = Vec(n); for (int j = 0; j < n; j++) k.v0[j] = r.sym(); need_init = false; h.push_back(k); if (r.coin(0.15)) { Call e; e.kind = 'E'; h.push_back(e); } continue; }
        k.kind = 'C';
        k.sel = gen ? grule[r.below(6)] : hsel[r.below(5)]; k.sort = gen ? grule[r.below(6)] : hsort[r.below(4)];
        if (malformed && r.coin(0.5)) { if (r.coin()) k.sel = r.range(0, 8); else k.sort = r.range(0, 8); }
        static const long mi[8] = {0, 0, 1, 1, 2, 3, 10, 300}; k.maxit = mi[r.below(8)];
        static const double tl[5] = {1e-3, 1e-6, 1e-8, 1e-10, 1e-13}; k.tol = tl[r.below(5)];
        h.push_back(k);
    }
    return h;
}

// ---- per-class adapters ----
template <class S> static void set_init(Api& a, S& s, std::true_type) { a.init = [&s](const Vec* v) { if (v) s.init(v->data()); else s.init(); }; }
template <class S> static void set_init(Api&, S&, std::false_type) {}
template <class S, bool RealInit = true> static void common_api(Api& a, S& s, OpLog& log) {
    a.info = [&s]() { return (int) s.info(); }; a.niter = [&s]() { return (long) s.num_iterations(); }; a.nmatop = [&s]() { return (long) s.num_operations(); };
    a.truecount = [&log]() { return log.count; }; a.resetcount = [&log]() { log.reset(); }; a.alias = [&log]() { return log.alias_seen; };
    a.compute = [&s](int sel, long maxit, double tol, int sort) { return (long) s.compute((SortRule) sel, maxit, tol, (SortRule) sort); };
    a.evals = [&s]() { CVec e = s.eigenvalues().template cast<CD>(); return e; };
    a.evecs = [&s](long m, bool all) { CMat X = all ? CMat(s.eigenvectors().template cast<CD>()) : CMat(s.eigenvectors(m).template cast<CD>()); return X; };
    set_init(a, s, std::integral_constant<bool, RealInit>());
}
static std::function<LD(CD, const CVec&)> pair_std(const Mat& A, LD) {
    return [&A](CD lam, const CVec& x) { LD an = A.norm(); CVec r = A.cast<CD>() * x - lam * x; return (LD) r.norm() / ((an + std::abs(lam)) * (LD) x.norm() + 1e-300L); };
}
static std::function<LD(CD, const CVec&)> pair_gen(const Mat& A, const Mat& B, LD) {
    return [&A, &B](CD lam, const CVec& x) { LD an = A.norm(), bn = B.norm(); CVec r = A.cast<CD>() * x - lam * (B.cast<CD>() * x); return (LD) r.norm() / ((an + std::abs(lam) * bn) * (LD) x.norm() + 1e-300L); };
}

struct CntSymProd : public Spectra::DenseSymMatProd<double> { OpLog* log; CntSymProd(const Mat& A, OpLog& l) : Spectra::DenseSymMatProd<double>(A), log(&l) {}
    void perform_op(const double* x, double* y) const { log->enter(x, y, rows()); Spectra::DenseSymMatProd<double>::perform_op(x, y); } };
// y = M x for a complex M, each row accumulated left to right from (+0, +0) in std::complex arithmetic (HermCplx.crowMajorOp of the model)
struct CLoopMatOp {
    using Scalar = CD; const CMat* M; OpLog* log;
    CLoopMatOp(const CMat& m, OpLog& l) : M(&m), log(&l) {}
    Eigen::Index rows() const { return M->rows(); } Eigen::Index cols() const { return M->cols(); }
    void perform_op(const CD* x, CD* y) const { const long n = M->rows(), m = M->cols(); log->count++; if (x == y || (x < y + n && y < x + m)) log->alias_seen = true;
        for (long i = 0; i < n; i++) { CD s(0.0, 0.0); for (long j = 0; j < m; j++) s += (*M)(i, j) * x[j]; y[i] = s; } }
};
static CVec cplx_start(const Vec& v) { const long n = v.size(); CVec z = v.cast<CD>(); for (long i = 0; i < n; i++) z[i] += CD(0, 0.5 * v[(i + 1) % n]); return z; }
static std::string hermc_header(int n, int nev, int ncv, const CMat& M) {
    const double eps = Spectra::TypeTraits<double>::epsilon(); const double eps23 = std::pow(eps, double(2) / 3); const double near0 = Spectra::TypeTraits<double>::min() * double(10);
    std::string s = "hermc " + str(n) + " " + str(nev) + " " + str(ncv) + " " + str(dbits(eps23)) + " " + str(dbits(near0)) + " " + str(dbits(eps));
    for (long i = 0; i < n; i++) for (long j = 0; j < n; j++) { s += " " + str(dbits(M(i, j).real())); s += " " + str(dbits(M(i, j).imag())); }
    return s;
}
// Re[(A - sigma I)^{-1} x] with the shift the solver installs; applications at the constructor's shift are "the iteration"
struct CplxShiftOp {
    using Scalar = double; const Mat* A; OpLog* log; Mat R; double sr0, si0; bool have0 = false; mutable long probe = 0; double sr = 0, si = 0;
    CplxShiftOp(const Mat& a, OpLog& l) : A(&a), log(&l) {}
    Eigen::Index rows() const { return A->rows(); } Eigen::Index cols() const { return A->cols(); }
    void set_shift(const double& r_, const double& i_) { sr = r_; si = i_; if (!have0) { sr0 = r_; si0 = i_; have0 = true; }
        CMat M = A->cast<CD>(); for (long k = 0; k < M.rows(); k++) M(k, k) -= CD(r_, i_); CMat Inv = M.partialPivLu().inverse(); R = Inv.real(); }
    void perform_op(const double* x, double* y) const { const long n = rows(); if (sr == sr0 && si == si0) log->enter(x, y, n); else probe++;
        for (long i = 0; i < n; i++) { double s = R(i, 0) * x[0]; for (long j = 1; j < n; j++) s += R(i, j) * x[j]; y[i] = s; } }
};

static std::string herm_header(int variant, int n, int nev, int ncv, double sigma, const Mat& M) {
    const double eps = Spectra::TypeTraits<double>::epsilon(); const double eps23 = std::pow(eps, double(2) / 3); const double near0 = Spectra::TypeTraits<double>::min() * double(10);
    return "herm " + str(variant) + " " + str(n) + " " + str(nev) + " " + str(ncv) + " " + str(dbits(eps23)) + " " + str(dbits(near0)) + " " + str(dbits(eps)) + " " + str(dbits(sigma)) + mat_bits(M);
}
static std::string gen_header(int variant, int n, int nev, int ncv, double sigmar, double sigmai, const Mat& M) {
    const double eps = Spectra::TypeTraits<double>::epsilon(); const double eps23 = std::pow(eps, double(2) / 3); const double near0 = Spectra::TypeTraits<double>::min() * double(10);
    return "gen " + str(variant) + " " + str(n) + " " + str(nev) + " " + str(ncv) + " " + str(dbits(eps23)) + " " + str(dbits(near0)) + " " + str(dbits(eps)) + " " + str(dbits(sigmar)) + " " + str(dbits(sigmai)) + mat_bits(M);
}
static Mat inverse_ld(const Mat& A, double sigma) { MatL M = A.cast<LD>(); for (long i = 0; i < M.rows(); i++) M(i, i) -= (LD) sigma; MatL I = M.partialPivLu().inverse(); return I.cast<double>(); }

// ---- Scalar = float: correspondence only (the same generic Lean model at Float32) ----
template <class T> struct LoopMatOpT {
    using Scalar = T; const Eigen::Matrix<T, Eigen::Dynamic, Eigen::Dynamic>* M;
    explicit LoopMatOpT(const Eigen::Matrix<T, Eigen::Dynamic, Eigen::Dynamic>& m) : M(&m) {}
    Eigen::Index rows() const { return M->rows(); } Eigen::Index cols() const { return M->cols(); }
    void perform_op(const T* x, T* y) const { const long n = M->rows(), m = M->cols(); for (long i = 0; i < n; i++) { T s = T(0); for (long j = 0; j < m; j++) s += (*M)(i, j) * x[j]; y[i] = s; } }
    void set_shift(const T&) {}
};
struct FloatAccess32 {
    template <class F> static std::string fachash(const F& f) { return SpectraVerifAccess::fachash32(f); }
};
struct FloatAccess32_unused {
    template <class F> static std::string fachash(const F& f) {
        uint64_t h = 1469598103934665603ull; auto feed = [&h](float x) { uint32_t u = fbits(x + 0.0f); for (int b = 0; b < 4; b++) { h ^= (u >> (8 * b)) & 0xff; h *= 1099511628211ull; } };
        feed(f.m_beta); const long m = f.m_m, n = f.m_n, k = f.m_k;
        for (long j = 0; j < m; j++) for (long i = 0; i < m; i++) feed(f.m_fac_H(i, j));
        for (long i = 0; i < n; i++) feed(f.m_fac_f[i]);
        for (long j = 0; j < k; j++) for (long i = 0; i < n; i++) feed(f.m_fac_V(i, j));
        return "k=" + str(k) + " beta=e:" + str(fbits(f.m_beta)) + " hash=" + str(h);
    }
};
template <class Solver> static void float_history(Solver& s, int n, int nev, const std::vector<Call>& calls, std::string& req, std::string& resp) {
    bool inited = false;
    for (const Call& k : calls) {
        if (k.kind == 'I' || k.kind == 'J') {
            Eigen::VectorXf v0 = k.v0.cast<float>();
            req += (k.kind == 'I' ? std::string(" | I") : std::string(" | J"));
            if (k.kind == 'I') for (int i = 0; i < n; i++) req += " " + str(fbits(v0[i]));
            try { if (k.kind == 'I') s.init(v0.data()); else s.init(); inited = true; resp += " | ok nmatop=" + str((long) s.num_operations()); }
            catch (const std::invalid_argument&) { resp += " | throw std::invalid_argument"; }
        } else if (k.kind == 'C' && inited) {
            float tol = (float) k.tol;
            req += " | C " + str(k.sel) + " " + str(k.maxit) + " " + str(fbits(tol)) + " " + str(k.sort);
            long r = -1;
            try { r = s.compute((SortRule) k.sel, k.maxit, tol, (SortRule) k.sort); }
            catch (const std::invalid_argument&) { resp += " | throw std::invalid_argument"; continue; }
            catch (const std::runtime_error&) { resp += " | throw std::runtime_error"; continue; }
            resp += " | ret=" + str(r) + " info=" + str((int) s.info()) + " niter=" + str((long) s.num_iterations()) + " nmatop=" + str((long) s.num_operations());
            req += " | E | V " + str(nev) + " | F";
            Eigen::VectorXf e = s.eigenvalues(); resp += " | k=" + str((long) e.size()); for (long i = 0; i < e.size(); i++) resp += " e:" + str(fbits(e[i]));
            Eigen::MatrixXf X = s.eigenvectors(nev); resp += " | rows=" + str(n) + " cols=" + str((long) X.cols()); for (long j = 0; j < X.cols(); j++) for (long i = 0; i < X.rows(); i++) resp += " " + str(fbits(X(i, j) + 0.0f));
            resp += " | " + FloatAccess32::fachash(SpectraVerifAccess::fac(s));
        }
    }
}
static void float_case(Rng& r, Out& out, int variant, int n, int nev, int ncv, int kind, double scale, const std::vector<Call>& calls) {
    Eigen::MatrixXf A = gen_sym(r, n, kind, scale).cast<float>(); Eigen::MatrixXf At = A.transpose(); A = (0.5f * (A + At)).eval();
    float sigma = 0.0f; Eigen::MatrixXf M = A;
    if (variant == 1) { sigma = (float) (0.37 * scale * r.sym() * 3); M = inverse_ld(A.cast<double>(), (double) sigma).cast<float>(); }
    const float eps = Spectra::TypeTraits<float>::epsilon(); const float eps23 = std::pow(eps, float(2) / 3); const float near0 = Spectra::TypeTraits<float>::min() * float(10);
    std::string req = "herm32 " + str(variant) + " " + str(n) + " " + str(nev) + " " + str(ncv) + " " + str(fbits(eps23)) + " " + str(fbits(near0)) + " " + str(fbits(eps)) + " " + str(fbits(sigma));
    for (long i = 0; i < n; i++) for (long j = 0; j < n; j++) req += " " + str(fbits(M(i, j)));
    std::string resp; LoopMatOpT<float> op(M);
    if (variant == 0) { Spectra::SymEigsSolver<LoopMatOpT<float>> s(op, nev, ncv); float_history(s, n, nev, calls, req, resp); }
    else { Spectra::SymEigsShiftSolver<LoopMatOpT<float>> s(op, nev, ncv, sigma); float_history(s, n, nev, calls, req, resp); }
    out.corr(req, resp.size() > 3 ? resp.substr(3) : resp); out.count("float_cases");
}

int main(int argc, char** argv) {
    Args args(argc, argv); Out out(args.out);
    const int ncases = args.thorough() ? 1500 : 260;
    const int nmax = args.thorough() ? 24 : 12;
    for (int cs = 0; cs < ncases; cs++) {
        Rng r(args.seed, 5, cs);
        { std::ofstream lc(args.out + "/lastcase.txt"); lc << "c05 case " << cs << " seed " << args.seed << "\n"; }
        Ctx c{&out, args.seed, cs, ""};
        const int cls = cs % 11; const bool gen = (cls >= 3 && cls <= 5);
        int n = r.range(gen ? 4 : 3, nmax); int nev = r.range(1, std::max(1, std::min(5, n - (gen ? 2 : 1)))); int lo = nev + (gen ? 2 : 1); if (lo > n) { nev = n - (gen ? 2 : 1); lo = n; }
        int ncv = r.range(lo, std::min(n, lo + 6));
        const int kind = r.range(0, 7); static const double scales[5] = {1.0, 1.0, 1e-6, 1e5, 37.0}; const double scale = scales[r.below(5)];
        const bool malformed = r.coin(0.15);
        std::vector<Call> calls = gen_history(r, n, gen, malformed);
        OpLog log; Api a; a.n = n; a.nev = nev; a.ncv = ncv; a.gen = gen;
        c.desc = "kind=" + str(kind) + " scale=" + str(scale);
        out.count(std::string("cls_") + str(cls));
        try {
        switch (cls) {
        case 0: { Mat A = gen_sym(r, n, kind, scale); LoopMatOp op(A, log); Spectra::SymEigsSolver<LoopMatOp> s(op, nev, ncv); a.cls = "SymEigsSolver"; common_api(a, s, log); a.resid = pair_std(A, A.norm() + 1e-300);
                  if (ncv <= 16) { a.fachash = [&s]() { return SpectraVerifAccess::fachash(SpectraVerifAccess::fac(s)); }; a.req = herm_header(0, n, nev, ncv, 0.0, A); }
                  run_history(a, calls, c); if (a.fachash) out.corr(a.req, a.resp.size() > 3 ? a.resp.substr(3) : a.resp); break; }
        case 1: { Mat A = gen_sym(r, n, kind == 4 ? 0 : kind, scale); double sigma = 0.37 * scale * r.sym() * 3; Mat Inv = inverse_ld(A, sigma); LoopMatOp op(Inv, log);
                  Spectra::SymEigsShiftSolver<LoopMatOp> s(op, nev, ncv, sigma); a.cls = "SymEigsShiftSolver"; common_api(a, s, log); a.resid = pair_std(A, A.norm() + std::fabs(sigma) + 1e-300);
                  if (ncv <= 16) { a.fachash = [&s]() { return SpectraVerifAccess::fachash(SpectraVerifAccess::fac(s)); }; a.req = herm_header(1, n, nev, ncv, sigma, Inv); }
                  run_history(a, calls, c); if (a.fachash) out.corr(a.req, a.resp.size() > 3 ? a.resp.substr(3) : a.resp); break; }
        case 2: { Vec dspec; Mat Re = gen_sym(r, n, kind, scale, &dspec); Mat Im = gen_general(r, n, 1, scale * 0.3); CMat A = Re.cast<CD>() + CD(0, 1) * Im.cast<CD>();
                  // half of the structured-spectrum cases: U diag(d) U^H with a random unitary U, so that repeated / low-rank / clustered spectra survive
                  // (Krylov breakdowns -> the complex expand_basis / restart branches of Lanczos); otherwise symmetric + i * skew (generic Hermitian)
                  if (kind != 5 && kind != 7 && r.coin(0.5)) { CMat Z(n, n); for (int i = 0; i < n; i++) for (int j = 0; j < n; j++) Z(i, j) = CD(r.sym(), r.sym());
                      Eigen::HouseholderQR<CMat> qr(Z); CMat U = qr.householderQ(); CMat T = U * dspec.cast<CD>().asDiagonal() * U.adjoint(); A = (0.5 * (T + T.adjoint())).eval(); out.count("hermc_unitary_spectrum"); }
                  CLoopMatOp op(A, log);
                  Spectra::HermEigsSolver<CLoopMatOp> s(op, nev, ncv); a.cls = "HermEigsSolver"; common_api<decltype(s), false>(a, s, log);
                  a.init = [&s](const Vec* v) { if (v) { CVec z = cplx_start(*v); s.init(z.data()); } else s.init(); };
                  a.resid = [A](CD lam, const CVec& x) { LD an = A.norm(); CVec r = A * x - lam * x; return (LD) r.norm() / ((an + std::abs(lam)) * (LD) x.norm() + 1e-300L); };
                  if (ncv <= 16) { a.fachash = [&s]() { return SpectraVerifAccess::fachashc(SpectraVerifAccess::fac(s)); }; a.req = hermc_header(n, nev, ncv, A); a.cplxvec = true;
                      a.v0bits = [](const Vec& v) { CVec z = cplx_start(v); std::string t; for (long i = 0; i < z.size(); i++) { t += " " + str(dbits(z[i].real())); t += " " + str(dbits(z[i].imag())); } return t; }; }
                  run_history(a, calls, c); if (a.fachash) { out.corr(a.req, a.resp.size() > 3 ? a.resp.substr(3) : a.resp); out.count("hermc_lines"); } break; }
        case 3: { Mat A = gen_general(r, n, kind % 7, scale); LoopMatOp op(A, log); Spectra::GenEigsSolver<LoopMatOp> s(op, nev, ncv); a.cls = "GenEigsSolver"; common_api(a, s, log); a.resid = pair_std(A, A.norm() + 1e-300);
                  if (ncv <= 16) { a.fachash = [&s]() { return SpectraVerifAccess::fachash(SpectraVerifAccess::fac(s)); }; a.req = gen_header(0, n, nev, ncv, 0.0, 0.0, A); }
                  run_history(a, calls, c); if (a.fachash) out.corr(a.req, a.resp.size() > 3 ? a.resp.substr(3) : a.resp); break; }
        case 4: { Mat A = gen_general(r, n, (kind % 7 == 5 || kind % 7 == 3) ? 0 : kind % 7, scale); double sigma = 1.7 * scale * (1 + r.unit()); Mat Inv = inverse_ld(A, sigma); LoopMatOp op(Inv, log);
                  Spectra::GenEigsRealShiftSolver<LoopMatOp> s(op, nev, ncv, sigma); a.cls = "GenEigsRealShiftSolver"; common_api(a, s, log); a.resid = pair_std(A, A.norm() + std::fabs(sigma) + 1e-300);
                  if (ncv <= 16) { a.fachash = [&s]() { return SpectraVerifAccess::fachash(SpectraVerifAccess::fac(s)); }; a.req = gen_header(1, n, nev, ncv, sigma, 0.0, Inv); }
                  run_history(a, calls, c); if (a.fachash) out.corr(a.req, a.resp.size() > 3 ? a.resp.substr(3) : a.resp); break; }
        case 5: { Mat A = gen_general(r, n, (kind % 7 == 5 || kind % 7 == 3) ? 0 : kind % 7, scale); double sr = 0.9 * scale * r.sym(), si = 0.4 * scale * (0.2 + r.unit()); CplxShiftOp op(A, log);
                  Spectra::GenEigsComplexShiftSolver<CplxShiftOp> s(op, nev, ncv, sr, si); a.cls = "GenEigsComplexShiftSolver"; common_api(a, s, log); a.resid = pair_std(A, A.norm() + std::fabs(sr) + si + 1e-300); run_history(a, calls, c); break; }
        default: {
            // generalized symmetric: A symmetric, B SPD
            Mat A = gen_sym(r, n, kind, scale); Mat M = gen_general(r, n, 0, 1.0); Mat B = M * M.transpose() + Mat::Identity(n, n) * (0.5 + r.unit());
            LD sc = A.norm() + B.norm() + 1e-300; double sigma = (0.3 + r.unit()) * scale * (r.coin() ? 1 : -1);
            if (cls == 6) { CntSymProd op(A, log); Spectra::DenseCholesky<double> Bop(B); Spectra::SymGEigsSolver<CntSymProd, Spectra::DenseCholesky<double>, Spectra::GEigsMode::Cholesky> s(op, Bop, nev, ncv);
                a.cls = "SymGEigsSolver<Cholesky>"; common_api(a, s, log); a.resid = pair_gen(A, B, sc); run_history(a, calls, c); }
            else if (cls == 7) { CntSymProd op(A, log); Eigen::SparseMatrix<double> Bs = B.sparseView(); Spectra::SparseRegularInverse<double> Bop(Bs);
                Spectra::SymGEigsSolver<CntSymProd, Spectra::SparseRegularInverse<double>, Spectra::GEigsMode::RegularInverse> s(op, Bop, nev, ncv);
                a.cls = "SymGEigsSolver<RegularInverse>"; common_api(a, s, log); a.resid = pair_gen(A, B, sc); run_history(a, calls, c); }
            else {
                // shift modes: count through the B-side product wrapper (applied exactly once per operator application)
                using SI = Spectra::SymShiftInvert<double, Eigen::Dense, Eigen::Dense>;
                if (cls == 8) { SI op(A, B); CntSymProd Bop(B, log); Spectra::SymGEigsShiftSolver<SI, CntSymProd, Spectra::GEigsMode::ShiftInvert> s(op, Bop, nev, ncv, sigma);
                    a.cls = "SymGEigsShiftSolver<ShiftInvert>"; common_api(a, s, log); a.resid = pair_gen(A, B, sc); a.truecount = [&a]() { return a.nmatop(); }; run_history(a, calls, c); }
                else if (cls == 9) { Mat Kp = B; Mat KG = A; SI op(Kp, KG); CntSymProd Bop(Kp, log); Spectra::SymGEigsShiftSolver<SI, CntSymProd, Spectra::GEigsMode::Buckling> s(op, Bop, nev, ncv, sigma);
                    a.cls = "SymGEigsShiftSolver<Buckling>"; common_api(a, s, log); a.resid = pair_gen(Kp, KG, sc); a.truecount = [&a]() { return a.nmatop(); }; run_history(a, calls, c); }
                else { SI op(A, B); CntSymProd Bop(B, log); Spectra::SymGEigsShiftSolver<SI, CntSymProd, Spectra::GEigsMode::Cayley> s(op, Bop, nev, ncv, sigma);
                    a.cls = "SymGEigsShiftSolver<Cayley>"; common_api(a, s, log); a.resid = pair_gen(A, B, sc); a.truecount = [&a]() { return a.nmatop(); }; run_history(a, calls, c); }
            }
        } }
        if (cls <= 1 && ncv <= 16) { Rng rf(args.seed, 55, cs); float_case(rf, out, cls, n, nev, ncv, kind == 3 ? 0 : kind, (scale == 1e-6 || scale == 1e5) ? 1.0 : scale, calls); }
        } catch (const std::exception& e) { out.count(std::string("case_exception_") + (dynamic_cast<const std::invalid_argument*>(&e) ? "invalid_argument" : "other")); }
    }
    out.finish();
    return 0;
}
