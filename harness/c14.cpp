// C14 harness: a failing user operator is contained.  For every Arnoldi/Lanczos-family solver class of the REAL library and small
// inputs: baseline run (fault-free), then EXHAUSTIVELY for k = 1..K (K = operator applications of the baseline, A- and B-operator
// applications counted together in call order) the k-th application throws Fault14(k); checked are
//   (a) the exception that leaves init()/compute() is that very object (type, payload k, serial number, zero copies), nothing
//       else was thrown, no application follows the failing one, and the vectors seen by the operator are a prefix of the baseline's;
//   (b) heap blocks (every malloc/free and operator new/delete, counted through the ASan allocator hooks) live after unwinding
//       = live before the call on an already used solver object, and on a fresh object: live after fault + recovery + destruction
//       = live before construction;
//   (c) with the fault cleared, init(v); compute(args) on the SAME object is bitwise equal (return value, info, counters,
//       eigenvalues, eigenvectors) to the baseline; also for PAIRS of faults (second fault during the recovery run);
//   (d) no sanitizer report (ASan/UBSan abort = harness failure).
// Model tie (symmetric family): the fresh-object history (faults, then clean run) is sent as a `hermf` request to Driver/C14.lean.
// Model tie (general family): the same history on GenEigsSolver / GenEigsRealShiftSolver is sent as a `genf` request
// (FaultOpGen.genKernF: outcome of every faulted call, num_operations() at the throw, then the recovery run bit for bit).
#include <cstdlib>
#include <new>
static long g_live = 0; static bool g_track = false;
#if defined(__SANITIZE_ADDRESS__)
extern "C" int __sanitizer_install_malloc_and_free_hooks(void (*)(const volatile void*, size_t), void (*)(const volatile void*));
static void c14_malloc_hook(const volatile void*, size_t) { if (g_track) g_live++; }
static void c14_free_hook(const volatile void* p) { if (g_track && p) g_live--; }
static const bool g_hooks = true;
void* operator new(std::size_t n) { void* p = std::malloc(n ? n : 1); if (!p) throw std::bad_alloc(); return p; }
void* operator new[](std::size_t n) { void* p = std::malloc(n ? n : 1); if (!p) throw std::bad_alloc(); return p; }
void operator delete(void* p) noexcept { std::free(p); }
void operator delete[](void* p) noexcept { std::free(p); }
void operator delete(void* p, std::size_t) noexcept { std::free(p); }
void operator delete[](void* p, std::size_t) noexcept { std::free(p); }
#else
static const bool g_hooks = false;     // without ASan only operator new/delete is seen
void* operator new(std::size_t n) { void* p = std::malloc(n ? n : 1); if (!p) throw std::bad_alloc(); if (g_track) g_live++; return p; }
void* operator new[](std::size_t n) { void* p = std::malloc(n ? n : 1); if (!p) throw std::bad_alloc(); if (g_track) g_live++; return p; }
void operator delete(void* p) noexcept { if (p) { if (g_track) g_live--; std::free(p); } }
void operator delete[](void* p) noexcept { if (p) { if (g_track) g_live--; std::free(p); } }
void operator delete(void* p, std::size_t) noexcept { if (p) { if (g_track) g_live--; std::free(p); } }
void operator delete[](void* p, std::size_t) noexcept { if (p) { if (g_track) g_live--; std::free(p); } }
#endif
struct Track { bool old; Track() : old(g_track) { g_track = true; } ~Track() { g_track = old; } };

#include "solver_common.h"
#include <Eigen/LU>
#include <Eigen/SparseCore>
#include <memory>
#include <typeinfo>
using namespace sh;
typedef std::complex<double> CD;
typedef Eigen::MatrixXcd CMat;
typedef Eigen::VectorXcd CVec;
typedef Eigen::SparseMatrix<double> SpMat;

struct SpectraVerifAccess {
    template <class S> static auto& fac(S& s) { return s.m_fac; }
    template <class F> static std::string fachash(const F& f) {
        uint64_t h = 1469598103934665603ull; auto feed = [&h](double x) { uint64_t u = dbits(x + 0.0); for (int b = 0; b < 8; b++) { h ^= (u >> (8 * b)) & 0xff; h *= 1099511628211ull; } };
        feed(f.m_beta); const long m = f.m_m, n = f.m_n, k = f.m_k;
        for (long j = 0; j < m; j++) for (long i = 0; i < m; i++) feed(f.m_fac_H(i, j));
        for (long i = 0; i < n; i++) feed(f.m_fac_f[i]);
        for (long j = 0; j < k; j++) for (long i = 0; i < n; i++) feed(f.m_fac_V(i, j));
        return "k=" + str(k) + " beta=e:" + str(dbits(f.m_beta)) + " hash=" + str(h);
    }
};

// ---- the user's exception: serial number and copy counter make "the same object" observable ----
static long g_fault_serial = 0, g_fault_copies = 0;
struct Fault14 : public UserFault {
    long serial;
    explicit Fault14(long k_) : UserFault(k_), serial(++g_fault_serial) {}
    Fault14(const Fault14& o) : UserFault(o), serial(o.serial) { g_fault_copies++; }
};

// ---- one log for ALL operator applications (A- and B-operator) of a solver, in call order ----
struct Log14 {
    long count = 0, countA = 0; uint64_t hash = 1469598103934665603ull; long throw_at = -1, poison_at = -1; std::vector<uint64_t>* record = nullptr;
    void clear() { count = 0; countA = 0; hash = 1469598103934665603ull; }
    void enter(int channel, const double* x, long n) {
        count++; if (channel == 0) countA++;
        hash ^= (uint64_t) (channel + 1); hash *= 1099511628211ull;
        for (long i = 0; i < n; i++) { uint64_t u = dbits(x[i]); for (int b = 0; b < 8; b++) { hash ^= (u >> (8 * b)) & 0xff; hash *= 1099511628211ull; } }
        if (record && record->size() < record->capacity()) record->push_back(hash);
        if (throw_at >= 0 && count == throw_at) throw Fault14(count);
    }
};

// y = M x, each row accumulated left to right from +0 (Arnoldi.rowMajorOp of the model)
struct FMatOp {
    using Scalar = double; const Mat* M; Log14* log; int channel;
    FMatOp(const Mat& m, Log14& l, int ch = 0) : M(&m), log(&l), channel(ch) {}
    Eigen::Index rows() const { return M->rows(); } Eigen::Index cols() const { return M->cols(); }
    void perform_op(const double* x, double* y) const {
        const long n = M->rows(), m = M->cols(); log->enter(channel, x, m);
        for (long i = 0; i < n; i++) { double s = 0.0; for (long j = 0; j < m; j++) s += (*M)(i, j) * x[j]; y[i] = s; }
    }
    void set_shift(const double&) {}
};
struct FHermOp {
    using Scalar = CD; const CMat* M; Log14* log;
    FHermOp(const CMat& m, Log14& l) : M(&m), log(&l) {}
    Eigen::Index rows() const { return M->rows(); } Eigen::Index cols() const { return M->cols(); }
    void perform_op(const CD* x, CD* y) const {
        const long n = M->rows(); log->enter(0, reinterpret_cast<const double*>(x), 2 * n);
        for (long i = 0; i < n; i++) { CD s = 0.0; for (long j = 0; j < n; j++) s += (*M)(i, j) * x[j]; y[i] = s; }
    }
};
// Re[(A - sigma I)^{-1} x] with whatever shift the solver has installed; EVERY application (iteration and probing) can fail
struct FCplxShiftOp {
    using Scalar = double; const Mat* A; Log14* log; Mat R; double sr = 0, si = 0; long nset = 0;
    FCplxShiftOp(const Mat& a, Log14& l) : A(&a), log(&l) {}
    Eigen::Index rows() const { return A->rows(); } Eigen::Index cols() const { return A->cols(); }
    void set_shift(const double& r_, const double& i_) { sr = r_; si = i_; nset++;
        CMat M = A->cast<CD>(); for (long k = 0; k < M.rows(); k++) M(k, k) -= CD(r_, i_); CMat Inv = M.partialPivLu().inverse(); R = Inv.real(); }
    void perform_op(const double* x, double* y) const { const long n = rows(); log->enter(0, x, n);
        for (long i = 0; i < n; i++) { double s = R(i, 0) * x[0]; for (long j = 1; j < n; j++) s += R(i, j) * x[j]; y[i] = s; } }
};
struct FCholesky : public Spectra::DenseCholesky<double> { Log14* log;
    FCholesky(const Mat& B, Log14& l) : Spectra::DenseCholesky<double>(B), log(&l) {}
    void lower_triangular_solve(const double* x, double* y) const { log->enter(1, x, rows()); Spectra::DenseCholesky<double>::lower_triangular_solve(x, y); }
    void upper_triangular_solve(const double* x, double* y) const { log->enter(1, x, rows()); Spectra::DenseCholesky<double>::upper_triangular_solve(x, y); } };
struct FRegInv : public Spectra::SparseRegularInverse<double> { Log14* log;
    FRegInv(const SpMat& B, Log14& l) : Spectra::SparseRegularInverse<double>(B), log(&l) {}
    void solve(const double* x, double* y) const { log->enter(1, x, rows()); Spectra::SparseRegularInverse<double>::solve(x, y); }
    void perform_op(const double* x, double* y) const { log->enter(1, x, rows()); Spectra::SparseRegularInverse<double>::perform_op(x, y); } };
struct FSymProd : public Spectra::DenseSymMatProd<double> { Log14* log; int channel;
    FSymProd(const Mat& A, Log14& l, int ch) : Spectra::DenseSymMatProd<double>(A), log(&l), channel(ch) {}
    void perform_op(const double* x, double* y) const { log->enter(channel, x, rows()); Spectra::DenseSymMatProd<double>::perform_op(x, y); } };
// fault kind "poison": the user's A-operator does not throw; at its poison_at-th application it RETURNS a vector containing NaN.
// The library's own thrower then fires further down the operator stack (SparseRegularInverse::solve: CG fails -> std::runtime_error).
struct PSymProd : public Spectra::DenseSymMatProd<double> { Log14* log;
    PSymProd(const Mat& A, Log14& l) : Spectra::DenseSymMatProd<double>(A), log(&l) {}
    void perform_op(const double* x, double* y) const { log->enter(0, x, rows()); Spectra::DenseSymMatProd<double>::perform_op(x, y);
        if (log->poison_at >= 0 && log->countA == log->poison_at) y[0] = std::numeric_limits<double>::quiet_NaN(); } };
typedef Spectra::SymShiftInvert<double, Eigen::Dense, Eigen::Dense> SIBase;
struct FShiftInvert : public SIBase { Log14* log;
    FShiftInvert(const Mat& A, const Mat& B, Log14& l) : SIBase(A, B), log(&l) {}
    void perform_op(const double* x, double* y) const { log->enter(0, x, rows()); SIBase::perform_op(x, y); } };

// ---- results of one init; compute ----
struct Res {
    long napps = 0; bool threw = false; std::string exn; long ret = -1; int info = -1; long niter = -1, nmatop = -1; std::vector<uint64_t> ev, X; long rows = 0, cols = 0;
    bool operator==(const Res& o) const { return threw == o.threw && exn == o.exn && ret == o.ret && info == o.info && niter == o.niter && nmatop == o.nmatop && ev == o.ev && X == o.X && rows == o.rows && cols == o.cols; }
};
static void push(std::vector<uint64_t>& v, double x) { v.push_back(dbits(x)); }
static void push(std::vector<uint64_t>& v, CD x) { v.push_back(dbits(x.real())); v.push_back(dbits(x.imag())); }
static std::string diff(const Res& a, const Res& b) {
    if (a.threw != b.threw || a.exn != b.exn) return "outcome (" + (a.threw ? a.exn : std::string("returned")) + " vs " + (b.threw ? b.exn : std::string("returned")) + ")";
    if (a.ret != b.ret) return "return value " + str(a.ret) + " vs " + str(b.ret);
    if (a.info != b.info) return "info() " + str(a.info) + " vs " + str(b.info);
    if (a.niter != b.niter) return "num_iterations() " + str(a.niter) + " vs " + str(b.niter);
    if (a.nmatop != b.nmatop) return "num_operations() " + str(a.nmatop) + " vs " + str(b.nmatop);
    if (a.ev != b.ev) return "eigenvalues() bits";
    if (a.X != b.X || a.rows != b.rows || a.cols != b.cols) return "eigenvectors() bits";
    return "";
}

// ---- a solver together with everything it refers to; H must provide init(), compute(), S& solver() ----
struct Params { int n, nev, ncv, sel, sort; long maxit; double tol; Vec v0; };
template <class H> static void run_clean(H& h, Log14& log, Res& r) {
    r = Res(); log.clear(); log.throw_at = -1; log.poison_at = -1;
    const char* tn = nullptr;
    {   Track t;
        try { h.init(); r.ret = h.compute(); r.napps = log.count; }
        catch (const std::exception& e) { r.threw = true; tn = typeid(e).name(); }
    }
    if (tn) r.exn = std::string("threw ") + tn;      // (string built outside the tracked region)
    auto& s = h.solver();
    r.info = (int) s.info(); r.niter = (long) s.num_iterations(); r.nmatop = (long) s.num_operations();
    if (!r.threw) { auto ev = s.eigenvalues(); for (long i = 0; i < ev.size(); i++) push(r.ev, ev[i]);
        auto X = s.eigenvectors(); r.rows = X.rows(); r.cols = X.cols(); for (long j = 0; j < X.cols(); j++) for (long i = 0; i < X.rows(); i++) push(r.X, X(i, j)); }
}
struct Fo { char stage = '-'; int kind = 0; long payload = -1, serial = -1, made = 0, copies = 0, entered = 0, enteredA = 0, nmatop = -1, niter = -1, dblocks = 0; int info = -1, info0 = -1; bool prefix_ok = true, op_ok = true; const char* tname = ""; };
template <class H> static Fo faulted(H& h, Log14& log, long k, const std::vector<uint64_t>& prefix) {
    Fo o; auto& s = h.solver(); o.info0 = (int) s.info();
    log.clear(); log.throw_at = k; const long ser0 = g_fault_serial, cop0 = g_fault_copies; const long b0 = g_live;
    {   Track t;
        try { o.stage = 'I'; h.init(); o.stage = 'C'; h.compute(); o.stage = 'N'; }
        catch (const Fault14& f) { o.kind = 1; o.payload = f.k; o.serial = f.serial; }
        catch (const std::exception& e) { o.kind = 2; o.tname = typeid(e).name(); }
        catch (...) { o.kind = 3; }
    }
    o.dblocks = g_live - b0; log.throw_at = -1; o.made = g_fault_serial - ser0; o.copies = g_fault_copies - cop0; o.entered = log.count; o.enteredA = log.countA;
    if (o.kind == 1 && o.serial != g_fault_serial) o.kind = 4;
    o.info = (int) s.info(); o.niter = (long) s.num_iterations(); o.nmatop = (long) s.num_operations();
    if (!h.op_state_ok()) { o.op_ok = false; h.op_repair(); }     // reported; then repaired as a user would have to, so that the remaining clauses stay testable
    o.prefix_ok = log.count >= 1 && log.count <= (long) prefix.size() && log.hash == prefix[log.count - 1];
    return o;
}

struct Ctx { Out* out; uint64_t seed; long caseno; std::string cls; std::string desc; const Params* P; bool thorough; };
static std::string rj(const Ctx& c, long k, long k2, const char* obj) {
    const Params& P = *c.P;
    return "{\"harness\":\"c14\",\"seed\":" + str(c.seed) + ",\"case\":" + str(c.caseno) + ",\"class\":\"" + c.cls + "\",\"n\":" + str(P.n) + ",\"nev\":" + str(P.nev) + ",\"ncv\":" + str(P.ncv) +
        ",\"sel\":" + str(P.sel) + ",\"sort\":" + str(P.sort) + ",\"maxit\":" + str(P.maxit) + ",\"tol\":" + str(P.tol) + ",\"fault_at\":" + str(k) + ",\"second_fault_at\":" + str(k2) + ",\"object\":\"" + obj + "\",\"desc\":\"" + jesc(c.desc) + "\"}";
}
// judge one faulted call; returns false if the call did not end with the user's exception
static bool judge(Ctx& c, const Fo& o, long k, long k1, long k2, const char* obj, bool warm) {
    Out& out = *c.out; out.count("oracle_fault"); out.count(std::string("stage_") + o.stage);
    const std::string where = c.cls + ": fault at application " + str(k) + (o.stage == 'I' ? " (inside init())" : " (inside compute())");
    if (o.kind == 0) { out.fail("exception-swallowed", where + ": init(); compute() returned normally, the user's exception was swallowed (operator entered " + str(o.entered) + " times)", rj(c, k1, k2, obj)); return false; }
    if (o.kind == 2 || o.kind == 3) { out.fail("exception-replaced", where + ": a different exception left the call (" + std::string(o.kind == 2 ? o.tname : "non-std") + ")", rj(c, k1, k2, obj)); return false; }
    if (o.kind == 4 || o.payload != k || o.made != 1 || o.copies != 0) out.fail("exception-identity", where + ": the exception caught is not the object thrown (payload " + str(o.payload) + ", thrown " + str(o.made) + " time(s), copied " + str(o.copies) + " time(s))", rj(c, k1, k2, obj));
    if (o.entered != k) out.fail("application-after-fault", where + ": the operator was applied " + str(o.entered - k) + " more time(s) after the failing application", rj(c, k1, k2, obj));
    if (!o.prefix_ok) out.fail("oplog-not-prefix", where + ": the vectors handed to the operator up to the fault are not those of the fault-free run", rj(c, k1, k2, obj));
    if (!o.op_ok) out.fail("operator-state-after-fault", where + ": the user's operator object is left in a modified state (the shift installed at construction has been replaced by the solver's probing shift and is not restored when the exception passes through)", rj(c, k1, k2, obj));
    if (o.info != o.info0) out.fail("fault-changes-info", where + ": info() changed from " + str(o.info0) + " to " + str(o.info), rj(c, k1, k2, obj));
    if (o.niter != 0) out.fail("fault-niter", where + ": num_iterations() = " + str(o.niter) + " after the interrupted call (init() sets it to 0, compute() updates it only on return)", rj(c, k1, k2, obj));
    if (o.nmatop < 0 || o.nmatop > o.enteredA) out.fail("fault-opcount", where + ": num_operations() = " + str(o.nmatop) + " but only " + str(o.enteredA) + " A-operator applications were started", rj(c, k1, k2, obj));
    if (warm && o.dblocks != 0) out.fail("leak-after-unwind", where + ": " + str(o.dblocks) + " heap block(s) more are live after the exception left the call than before the call (already used solver object)", rj(c, k1, k2, obj));
    return true;
}
static std::string fo_resp(const Fo& o) {
    if (o.kind == 0) return " | ok nmatop=2 | ret=? (not hit)";
    std::string ex = o.kind == 1 || o.kind == 4 ? "user:" + str(o.payload) : std::string("other");
    if (o.stage == 'I') return " | throw " + ex + " nmatop=" + str(o.nmatop);
    return " | ok nmatop=2 | throw " + ex + " info=" + str(o.info) + " niter=" + str(o.niter) + " nmatop=" + str(o.nmatop);
}

template <class Make, class Resp> static void sweep(Ctx& c, Log14& log, Make make, const std::string* hdr, Resp clean_resp) {
    Out& out = *c.out; const Params& P = *c.P; Rng r(c.seed, 14, c.caseno);
    const long kmax = c.thorough ? 400 : 90;
    std::vector<uint64_t> prefix; prefix.reserve(4096);
    typedef decltype(make()) HP; HP W;
    { Track t; W = make(); }
    Res R0, R1, Rk;
    log.record = &prefix; run_clean(*W, log, R0); log.record = nullptr;
    const long K = R0.napps;
    out.count("cls_" + c.cls);
    if (R0.threw) { out.count("baseline_throws"); Track t; W.reset(); return; }
    if (K > kmax) { out.count("baseline_too_long"); Track t; W.reset(); return; }
    out.count("oracle_baseline"); out.count("applications_total", K); out.count(R0.ret == P.nev ? "baseline_converged" : "baseline_not_converged");
    run_clean(*W, log, R1);
    if (!(R1 == R0)) out.fail("baseline-not-reproducible", c.cls + ": a second init(); compute() on the same object differs from the first in " + diff(R1, R0), rj(c, 0, 0, "warm"));
    for (long k = 1; k <= K; k++) {
        { std::ofstream lc(out.dir + "/lastcase.txt"); lc << "c14 case " << c.caseno << " seed " << c.seed << " class " << c.cls << " fault_at " << k << "\n"; }
        const bool pair = c.thorough ? (k % 2 == 0) : (k % 4 == 0); const long k2 = pair ? 1 + (long) r.below((uint64_t) K) : 0;
        // (1) already used object
        Fo f1 = faulted(*W, log, k, prefix); judge(c, f1, k, k, k2, "warm", true);
        if (pair) { Fo f2 = faulted(*W, log, k2, prefix); judge(c, f2, k2, k, k2, "warm", true); out.count("oracle_pair"); }
        run_clean(*W, log, Rk);
        if (!(Rk == R0)) out.fail("recovery-differs", c.cls + ": after a fault at application " + str(k) + (pair ? " and a second one at " + str(k2) + " of the recovery run" : std::string("")) + ", init(); compute() on the same (already used) object differs from the fault-free baseline in " + diff(Rk, R0), rj(c, k, k2, "warm"));
        out.count("oracle_recovery");
        // (2) fresh object, destroyed afterwards: nothing may stay allocated
        const long L0 = g_live; std::string resp; Res Rf;
        {   HP F;
            { Track t; F = make(); }
            Fo g1 = faulted(*F, log, k, prefix); judge(c, g1, k, k, k2, "fresh", false); resp += fo_resp(g1);
            if (pair) { Fo g2 = faulted(*F, log, k2, prefix); judge(c, g2, k2, k, k2, "fresh", false); resp += fo_resp(g2); }
            run_clean(*F, log, Rf);
            if (!(Rf == R0)) out.fail("recovery-differs", c.cls + ": after a fault at application " + str(k) + (pair ? " and a second one at " + str(k2) + " of the recovery run" : std::string("")) + ", init(); compute() on the same (fresh) object differs from the fault-free baseline in " + diff(Rf, R0), rj(c, k, k2, "fresh"));
            out.count("oracle_recovery");
            if (hdr) resp += clean_resp(*F, Rf);
            { Track t; F.reset(); }
        }
        if (g_live != L0) out.fail("leak-after-destroy", c.cls + ": " + str(g_live - L0) + " heap block(s) still live after fault at application " + str(k) + ", recovery and destruction of the solver", rj(c, k, k2, "fresh"));
        if (hdr) { out.corr(*hdr + (pair ? " 2 " + str(k) + " " + str(k2) : " 1 " + str(k)), resp.size() > 3 ? resp.substr(3) : resp); out.count(hdr->compare(0, 4, "genf") == 0 ? "tied_genf" : "tied_hermf"); }
    }
    if (hdr) {   // the fault-free history itself
        HP F; { Track t; F = make(); } Res Rf; run_clean(*F, log, Rf);
        std::string resp = clean_resp(*F, Rf); out.corr(*hdr + " 0", resp.size() > 3 ? resp.substr(3) : resp); { Track t; F.reset(); }
    }
    { Track t; W.reset(); }
}

// ---- poison sweep: the LIBRARY's thrower (real SparseRegularInverse as B operator) fires at the k-th A-application, k = 1..K ----
template <class Make> static void poison_sweep(Ctx& c, Log14& log, Make make) {
    Out& out = *c.out; const Params& P = *c.P;
    const long kmax = c.thorough ? 400 : 90;
    typedef decltype(make()) HP; HP W; { Track t; W = make(); }
    Res R0, Rk; run_clean(*W, log, R0); const long K = log.countA;
    if (R0.threw || K > kmax) { out.count(R0.threw ? "poison_baseline_throws" : "poison_baseline_too_long"); Track t; W.reset(); return; }
    out.count("oracle_poison_baseline");
    auto rjp = [&](long k, const char* obj) { std::string s = rj(c, k, 0, obj); s.insert(s.size() - 1, ",\"fault_kind\":\"poison\""); return s; };
    // one poisoned init(); compute(): kind 1 = std::runtime_error left the call, 0 = returned normally, 2 = other std exception, 3 = other
    auto poisoned = [&](decltype(*W)& h, long k, long& dblocks, char& stage, int& info0, int& info1, long& niter, long& nmatop, long& enteredA, const char*& tn) {
        auto& s = h.solver(); info0 = (int) s.info(); int kind = 0; tn = "";
        log.clear(); log.throw_at = -1; log.poison_at = k; const long b0 = g_live;
        {   Track t;
            try { stage = 'I'; h.init(); stage = 'C'; h.compute(); stage = 'N'; }
            catch (const std::runtime_error&) { kind = 1; }
            catch (const std::exception& e) { kind = 2; tn = typeid(e).name(); }
            catch (...) { kind = 3; }
        }
        dblocks = g_live - b0; log.poison_at = -1; enteredA = log.countA;
        info1 = (int) s.info(); niter = (long) s.num_iterations(); nmatop = (long) s.num_operations();
        return kind;
    };
    for (long k = 1; k <= K; k++) {
        { std::ofstream lc(out.dir + "/lastcase.txt"); lc << "c14 case " << c.caseno << " seed " << c.seed << " class " << c.cls << " poison_at " << k << "\n"; }
        for (int fresh = 0; fresh < 2; fresh++) {
            const char* obj = fresh ? "fresh" : "warm"; const long L0 = g_live;
            {   HP F; if (fresh) { Track t; F = make(); }
                auto& h = fresh ? *F : *W;
                long db = 0, niter = 0, nmatop = 0, entA = 0; char stage = '-'; int i0 = 0, i1 = 0; const char* tn = "";
                const int kind = poisoned(h, k, db, stage, i0, i1, niter, nmatop, entA, tn);
                out.count("oracle_poison"); out.count(std::string("poison_stage_") + stage);
                const std::string where = c.cls + " with SparseRegularInverse as B operator: A-operator returns NaN at its application " + str(k) + (stage == 'I' ? " (inside init())" : " (inside compute())");
                if (kind == 0) out.fail("lib-thrower-silent", where + ": init(); compute() returned normally although the B solve cannot have converged (no std::runtime_error from SparseRegularInverse::solve)", rjp(k, obj));
                else if (kind != 1) out.fail("lib-exception-replaced", where + ": an exception other than std::runtime_error left the call (" + std::string(kind == 2 ? tn : "non-std") + ")", rjp(k, obj));
                else {
                    if (entA != k) out.fail("application-after-fault", where + ": the A-operator was applied " + str(entA - k) + " more time(s) after the application whose B solve failed", rjp(k, obj));
                    if (i1 != i0) out.fail("fault-changes-info", where + ": info() changed from " + str(i0) + " to " + str(i1), rjp(k, obj));
                    if (niter != 0) out.fail("fault-niter", where + ": num_iterations() = " + str(niter) + " after the interrupted call", rjp(k, obj));
                    if (nmatop < 0 || nmatop > entA) out.fail("fault-opcount", where + ": num_operations() = " + str(nmatop) + " but only " + str(entA) + " applications were started", rjp(k, obj));
                }
                if (!fresh && db != 0) out.fail("leak-after-unwind", where + ": " + str(db) + " heap block(s) more are live after the exception left the call than before the call (already used solver object)", rjp(k, obj));
                run_clean(h, log, Rk);     // the fault is gone: SAME solver object, SAME B-operator object
                if (!(Rk == R0)) out.fail("recovery-differs", where + ": afterwards, with a healthy operator, init(); compute() on the same (" + std::string(fresh ? "fresh" : "already used") + ") solver and B-operator objects differs from the fault-free baseline in " + diff(Rk, R0), rjp(k, obj));
                out.count("oracle_poison_recovery");
                if (fresh) { Track t; F.reset(); }
            }
            if (fresh && g_live != L0) out.fail("leak-after-destroy", c.cls + " (poison): " + str(g_live - L0) + " heap block(s) still live after the library's exception at application " + str(k) + ", recovery and destruction of the solver", rjp(k, obj));
        }
    }
    { Track t; W.reset(); }
}

static std::string herm_header(int variant, const Params& P, double sigma, const Mat& M) {
    const double eps = Spectra::TypeTraits<double>::epsilon(); const double eps23 = std::pow(eps, double(2) / 3); const double near0 = Spectra::TypeTraits<double>::min() * double(10);
    return "hermf " + str(variant) + " " + str(P.n) + " " + str(P.nev) + " " + str(P.ncv) + " " + str(dbits(eps23)) + " " + str(dbits(near0)) + " " + str(dbits(eps)) + " " + str(dbits(sigma)) + mat_bits(M) +
        " " + str(P.sel) + " " + str(P.maxit) + " " + str(dbits(P.tol)) + " " + str(P.sort) + vec_bits(P.v0);
}
static std::string genf_header(int variant, const Params& P, double sigma, const Mat& M) {
    const double eps = Spectra::TypeTraits<double>::epsilon(); const double eps23 = std::pow(eps, double(2) / 3); const double near0 = Spectra::TypeTraits<double>::min() * double(10);
    return "genf " + str(variant) + " " + str(P.n) + " " + str(P.nev) + " " + str(P.ncv) + " " + str(dbits(eps23)) + " " + str(dbits(near0)) + " " + str(dbits(eps)) + " " + str(dbits(sigma)) + mat_bits(M) +
        " " + str(P.sel) + " " + str(P.maxit) + " " + str(dbits(P.tol)) + " " + str(P.sort) + vec_bits(P.v0);
}
static Mat inverse_ld(const Mat& A, double sigma) { MatL M = A.cast<LD>(); for (long i = 0; i < M.rows(); i++) M(i, i) -= (LD) sigma; MatL I = M.partialPivLu().inverse(); return I.cast<double>(); }
struct NoResp { template <class H> std::string operator()(H&, const Res&) const { return ""; } };
struct HermResp { const Params* P;
    template <class H> std::string operator()(H& h, const Res& R) const { auto& s = h.solver(); std::string a;
        if (R.threw) return " | ok nmatop=2 | throw other";
        a += " | ok nmatop=2 | ret=" + str(R.ret) + " info=" + str(R.info) + " niter=" + str(R.niter) + " nmatop=" + str(R.nmatop);
        Vec e1 = s.eigenvalues(); a += " | k=" + str((long) e1.size()); for (long i = 0; i < e1.size(); i++) a += " e:" + str(dbits(e1[i]));
        Mat X1 = s.eigenvectors(P->nev); a += " | rows=" + str(P->n) + " cols=" + str((long) X1.cols()); for (long j = 0; j < X1.cols(); j++) for (long i = 0; i < X1.rows(); i++) a += " " + str(dbits(X1(i, j) + 0.0));
        a += " | " + SpectraVerifAccess::fachash(SpectraVerifAccess::fac(s)); return a; } };

struct GenResp { const Params* P;
    template <class H> std::string operator()(H& h, const Res& R) const { auto& s = h.solver(); std::string a;
        if (R.threw) return " | ok nmatop=2 | throw other";
        a += " | ok nmatop=2 | ret=" + str(R.ret) + " info=" + str(R.info) + " niter=" + str(R.niter) + " nmatop=" + str(R.nmatop);
        CVec e1 = s.eigenvalues(); a += " | k=" + str((long) e1.size()); for (long i = 0; i < e1.size(); i++) a += " e:" + str(dbits(e1[i].real())) + " e:" + str(dbits(e1[i].imag()));
        CMat X1 = s.eigenvectors(P->nev); a += " | rows=" + str(P->n) + " cols=" + str((long) X1.cols()); for (long j = 0; j < X1.cols(); j++) for (long i = 0; i < X1.rows(); i++) a += " " + str(dbits(X1(i, j).real() + 0.0)) + " " + str(dbits(X1(i, j).imag() + 0.0));
        a += " | " + SpectraVerifAccess::fachash(SpectraVerifAccess::fac(s)); return a; } };

// ---- holders: operators + solver, constructed in this order ----
#define HOLDER_COMMON(SolverT) bool op_state_ok() const { return true; } void op_repair() {} HOLDER_BASE(SolverT)
#define HOLDER_BASE(SolverT) SolverT S; const Params* P; SolverT& solver() { return S; } void init() { S.init(P->v0.data()); } long compute() { return (long) S.compute((SortRule) P->sel, P->maxit, P->tol, (SortRule) P->sort); }
struct HSym { FMatOp op; HOLDER_COMMON(Spectra::SymEigsSolver<FMatOp>) HSym(const Mat& A, Log14& l, const Params& p) : op(A, l), S(op, p.nev, p.ncv), P(&p) {} };
struct HSymShift { FMatOp op; HOLDER_COMMON(Spectra::SymEigsShiftSolver<FMatOp>) HSymShift(const Mat& Inv, Log14& l, const Params& p, double sigma) : op(Inv, l), S(op, p.nev, p.ncv, sigma), P(&p) {} };
struct HHerm { FHermOp op; Spectra::HermEigsSolver<FHermOp> S; const Params* P; CVec z; Spectra::HermEigsSolver<FHermOp>& solver() { return S; }
    bool op_state_ok() const { return true; } void op_repair() {}
    void init() { S.init(z.data()); } long compute() { return (long) S.compute((SortRule) P->sel, P->maxit, P->tol, (SortRule) P->sort); }
    HHerm(const CMat& A, Log14& l, const Params& p) : op(A, l), S(op, p.nev, p.ncv), P(&p), z(p.v0.cast<CD>()) { for (int i = 0; i < p.n; i++) z[i] += CD(0, 0.5 * p.v0[(i + 1) % p.n]); } };
struct HGen { FMatOp op; HOLDER_COMMON(Spectra::GenEigsSolver<FMatOp>) HGen(const Mat& A, Log14& l, const Params& p) : op(A, l), S(op, p.nev, p.ncv), P(&p) {} };
struct HGenReal { FMatOp op; HOLDER_COMMON(Spectra::GenEigsRealShiftSolver<FMatOp>) HGenReal(const Mat& Inv, Log14& l, const Params& p, double sigma) : op(Inv, l), S(op, p.nev, p.ncv, sigma), P(&p) {} };
struct HGenCplx { FCplxShiftOp op; double sr0, si0; HOLDER_BASE(Spectra::GenEigsComplexShiftSolver<FCplxShiftOp>)
    // the user's operator must be left with the shift given at construction (it is not re-installed by init())
    bool op_state_ok() const { return op.sr == sr0 && op.si == si0; } void op_repair() { op.set_shift(sr0, si0); }
    HGenCplx(const Mat& A, Log14& l, const Params& p, double sr, double si) : op(A, l), sr0(sr), si0(si), S(op, p.nev, p.ncv, sr, si), P(&p) {} };
typedef Spectra::SymGEigsSolver<FSymProd, FCholesky, Spectra::GEigsMode::Cholesky> GChol;
struct HGChol { FSymProd op; FCholesky Bop; HOLDER_COMMON(GChol) HGChol(const Mat& A, const Mat& B, Log14& l, const Params& p) : op(A, l, 0), Bop(B, l), S(op, Bop, p.nev, p.ncv), P(&p) {} };
typedef Spectra::SymGEigsSolver<FSymProd, FRegInv, Spectra::GEigsMode::RegularInverse> GReg;
struct HGReg { FSymProd op; SpMat Bs; FRegInv Bop; HOLDER_COMMON(GReg) HGReg(const Mat& A, const Mat& B, Log14& l, const Params& p) : op(A, l, 0), Bs(B.sparseView()), Bop(Bs, l), S(op, Bop, p.nev, p.ncv), P(&p) {} };
typedef Spectra::SymGEigsSolver<PSymProd, Spectra::SparseRegularInverse<double>, Spectra::GEigsMode::RegularInverse> GRegP;
struct HGRegP { PSymProd op; SpMat Bs; Spectra::SparseRegularInverse<double> Bop; HOLDER_COMMON(GRegP) HGRegP(const Mat& A, const Mat& B, Log14& l, const Params& p) : op(A, l), Bs(B.sparseView()), Bop(Bs), S(op, Bop, p.nev, p.ncv), P(&p) {} };
template <Spectra::GEigsMode Mode> struct HGShift { FShiftInvert op; FSymProd Bop; typedef Spectra::SymGEigsShiftSolver<FShiftInvert, FSymProd, Mode> ST; HOLDER_COMMON(ST)
    HGShift(const Mat& A, const Mat& B, const Mat& Bprod, Log14& l, const Params& p, double sigma) : op(A, B, l), Bop(Bprod, l, 1), S(op, Bop, p.nev, p.ncv, sigma), P(&p) {} };

int main(int argc, char** argv) {
    Args args(argc, argv); Out out(args.out);
#if defined(__SANITIZE_ADDRESS__)
    if (!__sanitizer_install_malloc_and_free_hooks(c14_malloc_hook, c14_free_hook)) { std::fprintf(stderr, "c14: cannot install allocator hooks\n"); return 3; }
#endif
    out.count(g_hooks ? "heap_counter_asan_hooks" : "heap_counter_operator_new_only");
    const bool thorough = args.thorough();
    const int ncases = thorough ? 600 : 120;
    for (int cs = 0; cs < ncases; cs++) {
        Rng r(args.seed, 14, cs);
        const int cls = cs % 12; const bool gen = (cls >= 3 && cls <= 5);
        Params P; P.n = r.range(gen ? 5 : 4, thorough ? 12 : 8); P.nev = r.range(1, gen ? 2 : 3); if (P.nev > P.n - (gen ? 2 : 1)) P.nev = P.n - (gen ? 2 : 1);
        const int lo = P.nev + (gen ? 2 : 1); P.ncv = r.range(lo, std::min(P.n, lo + 3));
        static const int hsel[5] = {0, 3, 4, 7, 8}, hsort[4] = {0, 3, 4, 7}, grule[6] = {0, 1, 2, 4, 5, 6};
        P.sel = gen ? grule[r.below(6)] : hsel[r.below(5)]; P.sort = gen ? grule[r.below(6)] : hsort[r.below(4)];
        static const long mi[6] = {0, 1, 2, 3, 5, 30}; P.maxit = mi[r.below(6)]; static const double tl[3] = {1e-4, 1e-8, 1e-12}; P.tol = tl[r.below(3)];
        P.v0 = Vec(P.n); for (int j = 0; j < P.n; j++) P.v0[j] = r.sym();
        const int kind = r.range(0, 7); static const double scales[4] = {1.0, 1.0, 1e-5, 300.0}; const double scale = scales[r.below(4)];
        Log14 log; Ctx c{&out, args.seed, cs, "", "kind=" + str(kind) + " scale=" + str(scale), &P, thorough};
        const int n = P.n;
        try {
        switch (cls) {
        case 0: { Mat A = gen_sym(r, n, kind, scale); c.cls = "SymEigsSolver"; std::string hdr = herm_header(0, P, 0.0, A);
                  sweep(c, log, [&]() { return std::unique_ptr<HSym>(new HSym(A, log, P)); }, &hdr, HermResp{&P}); break; }
        case 1: { Mat A = gen_sym(r, n, kind == 4 ? 0 : kind, scale); double sigma = 0.37 * scale * r.sym() * 3; Mat Inv = inverse_ld(A, sigma); c.cls = "SymEigsShiftSolver"; std::string hdr = herm_header(1, P, sigma, Inv);
                  sweep(c, log, [&]() { return std::unique_ptr<HSymShift>(new HSymShift(Inv, log, P, sigma)); }, &hdr, HermResp{&P}); break; }
        case 2: { Mat Re = gen_sym(r, n, kind, scale); Mat Im = gen_general(r, n, 1, scale * 0.3); CMat A = Re.cast<CD>() + CD(0, 1) * Im.cast<CD>(); c.cls = "HermEigsSolver";
                  sweep(c, log, [&]() { return std::unique_ptr<HHerm>(new HHerm(A, log, P)); }, nullptr, NoResp()); break; }
        case 3: { Mat A = gen_general(r, n, kind % 7, scale); c.cls = "GenEigsSolver"; std::string hdr = genf_header(0, P, 0.0, A);
                  sweep(c, log, [&]() { return std::unique_ptr<HGen>(new HGen(A, log, P)); }, &hdr, GenResp{&P}); break; }
        case 4: { Mat A = gen_general(r, n, (kind % 7 == 5 || kind % 7 == 3) ? 0 : kind % 7, scale); double sigma = 1.7 * scale * (1 + r.unit()); Mat Inv = inverse_ld(A, sigma); c.cls = "GenEigsRealShiftSolver"; std::string hdr = genf_header(1, P, sigma, Inv);
                  sweep(c, log, [&]() { return std::unique_ptr<HGenReal>(new HGenReal(Inv, log, P, sigma)); }, &hdr, GenResp{&P}); break; }
        case 5: { Mat A = gen_general(r, n, (kind % 7 == 5 || kind % 7 == 3) ? 0 : kind % 7, scale); double sr = 0.9 * scale * r.sym(), si = 0.4 * scale * (0.2 + r.unit()); c.cls = "GenEigsComplexShiftSolver";
                  sweep(c, log, [&]() { return std::unique_ptr<HGenCplx>(new HGenCplx(A, log, P, sr, si)); }, nullptr, NoResp()); break; }
        default: {
            Mat A = gen_sym(r, n, kind, scale); Mat M = gen_general(r, n, 0, 1.0); Mat B = M * M.transpose() + Mat::Identity(n, n) * (0.5 + r.unit());
            double sigma = (0.3 + r.unit()) * scale * (r.coin() ? 1 : -1);
            if (cls == 6 || cls == 11) { c.cls = "SymGEigsSolver<Cholesky>"; sweep(c, log, [&]() { return std::unique_ptr<HGChol>(new HGChol(A, B, log, P)); }, nullptr, NoResp()); }
            else if (cls == 7) { c.cls = "SymGEigsSolver<RegularInverse>"; sweep(c, log, [&]() { return std::unique_ptr<HGReg>(new HGReg(A, B, log, P)); }, nullptr, NoResp());
                poison_sweep(c, log, [&]() { return std::unique_ptr<HGRegP>(new HGRegP(A, B, log, P)); }); }
            else if (cls == 8) { c.cls = "SymGEigsShiftSolver<ShiftInvert>"; sweep(c, log, [&]() { return std::unique_ptr<HGShift<Spectra::GEigsMode::ShiftInvert>>(new HGShift<Spectra::GEigsMode::ShiftInvert>(A, B, B, log, P, sigma)); }, nullptr, NoResp()); }
            else if (cls == 9) { c.cls = "SymGEigsShiftSolver<Buckling>"; sweep(c, log, [&]() { return std::unique_ptr<HGShift<Spectra::GEigsMode::Buckling>>(new HGShift<Spectra::GEigsMode::Buckling>(B, A, B, log, P, sigma)); }, nullptr, NoResp()); }
            else { c.cls = "SymGEigsShiftSolver<Cayley>"; sweep(c, log, [&]() { return std::unique_ptr<HGShift<Spectra::GEigsMode::Cayley>>(new HGShift<Spectra::GEigsMode::Cayley>(A, B, B, log, P, sigma)); }, nullptr, NoResp()); }
        } }
        } catch (const std::exception& e) { out.count(std::string("case_exception_") + (dynamic_cast<const std::invalid_argument*>(&e) ? "invalid_argument" : "other")); }
    }
    out.finish();
    return 0;
}
