// C14 harness: a failing user operator is contained.  For every Arnoldi/Lanczos-family solver class of the REAL library and small
// inputs: baseline run (fault-free), then EXHAUSTIVELY for k = 1..K (K = operator applications of the baseline, A- and B-operator
// applications counted together in call order) the k-th application throws Fault14(k); checked are
//   (a) the exception that leaves init()/compute() is that very object (type, payload k, serial number, zero copies), nothing
//       else was thrown, no application follows the failing one, and the vectors seen by the operator are a prefix of the baseline's;
//   (b) heap blocks (every malloc/free and operator new/delete, counted through the ASan allocator hooks) live after unwinding
//       = live before the call on an already used solver object, and on a fresh object: live after fault + recovery + destruction
//       = live before construction;
//   (c) with the fault cleared, init(v); compute(args) on the SAME object is bitwise equal (return value, info, counters,
//       eigenvalues, eigenvectors) to the baseline; also for PAIRS of faults (second fault during the recovery run);
//   (d) no sanitizer report (ASan/UBSan abort = harness failure).
// Fault KIND dimension (the property says "the exception", not "the std::exception"): the failing application throws
//   std_exception       Fault14 : UserFault : std::exception                       (serial number, copy counter)
//   raw_struct          RawFault14 { k, serial, tag }, NOT derived from std::exception  (serial number, copy counter)
//   int                 `throw int`                                                 (value = fault index)
//   cstring             `throw const char*`                                         (pointer identity + text)
//   runtime_error_rich  RichFault<std::runtime_error> : std::runtime_error with extra data (serial, copy counter, tag[4], what()
//                       text: a handler that re-throws by value, `throw e;`, slices it to the handler's declared type)
//   invalid_argument_rich / logic_error_rich / out_of_range_rich / bad_alloc_rich
//                       the same user class template derived from std::invalid_argument, std::logic_error, std::out_of_range,
//                       std::bad_alloc: the types the library itself throws or could plausibly "translate" in a typed handler
//                       (`catch (const std::invalid_argument&) { throw std::invalid_argument("friendlier text"); }` around a
//                       call that also applies the user's operator intercepts the USER's exception of such a type)
// and for EVERY kind the same predicates (a)-(d) are judged; a std base-class object leaving the call instead of the user's
// object is reported as `exception-sliced`, any other object as `exception-replaced`.  thorough: kinds x indices exhaustively,
// on the warm and on the fresh object; quick: per fault index ONE kind derived from std::exception (6 of them, rotating with
// index + case + case/12) on one object and ONE kind not derived from it (3, rotating likewise) on the other object, the roles
// of warm/fresh swapping with the parity of the case: every index of every input sees a non-std fault, and every class sees
// every std-derived kind at every small index (init() window) within 6 consecutive inputs of that class.
// Model tie (symmetric family): the fresh-object history (faults, then clean run) is sent as a `hermf` request to Driver/C14.lean.
// Model tie (general family): the same history on GenEigsSolver / GenEigsRealShiftSolver is sent as a `genf` request
// (FaultOpGen.genKernF: outcome of every faulted call, num_operations() at the throw, then the recovery run bit for bit).
#include <cstdlib>
#include <new>
static long g_live = 0; static bool g_track = false;
#if defined(__SANITIZE_ADDRESS__)
extern "C" int __sanitizer_install_malloc_and_free_hooks(void (*)(const volatile void*, size_t), void (*)(const volatile void*));
static void c14_malloc_hook(const volatile void*, size_t) { if (g_track) g_live++; }
static void c14_free_hook(const volatile void* p) { if (g_track && p) g_live--; }
static const bool g_hooks = true;
void* operator new(std::size_t n) { void* p = std::malloc(n ? n : 1); if (!p) throw std::bad_alloc(); return p; }
void* operator new[](std::size_t n) { void* p = std::malloc(n ? n : 1); if (!p) throw std::bad_alloc(); return p; }
void operator delete(void* p) noexcept { std::free(p); }
void operator delete[](void* p) noexcept { std::free(p); }
void operator delete(void* p, std::size_t) noexcept { std::free(p); }
void operator delete[](void* p, std::size_t) noexcept { std::free(p); }
#else
static const bool g_hooks = false;     // without ASan only operator new/delete is seen
void* operator new(std::size_t n) { void* p = std::malloc(n ? n : 1); if (!p) throw std::bad_alloc(); if (g_track) g_live++; return p; }
void* operator new[](std::size_t n) { void* p = std::malloc(n ? n : 1); if (!p) throw std::bad_alloc(); if (g_track) g_live++; return p; }
void operator delete(void* p) noexcept { if (p) { if (g_track) g_live--; std::free(p); } }
void operator delete[](void* p) noexcept { if (p) { if (g_track) g_live--; std::free(p); } }
void operator delete(void* p, std::size_t) noexcept { if (p) { if (g_track) g_live--; std::free(p); } }
void operator delete[](void* p, std::size_t) noexcept { if (p) { if (g_track) g_live--; std::free(p); } }
#endif
struct Track { bool old; Track() : old(g_track) { g_track = true; } ~Track() { g_track = old; } };

#include "solver_common.h"
#include <Eigen/LU>
#include <Eigen/SparseCore>
#include <memory>
#include <typeinfo>
#include <cstring>
#include <cstdio>
#include <stdexcept>
using namespace sh;
typedef std::complex<double> CD;
typedef Eigen::MatrixXcd CMat;
typedef Eigen::VectorXcd CVec;
typedef Eigen::SparseMatrix<double> SpMat;

struct SpectraVerifAccess {
    template <class S> static auto& fac(S& s) { return s.m_fac; }
    template <class F> static std::string fachash(const F& f) {
        uint64_t h = 1469598103934665603ull; auto feed = [&h](double x) { uint64_t u = dbits(x + 0.0); for (int b = 0; b < 8; b++) { h ^= (u >> (8 * b)) & 0xff; h *= 1099511628211ull; } };
        feed(f.m_beta); const long m = f.m_m, n = f.m_n, k = f.m_k;
        for (long j = 0; j < m; j++) for (long i = 0; i < m; i++) feed(f.m_fac_H(i, j));
        for (long i = 0; i < n; i++) feed(f.m_fac_f[i]);
        for (long j = 0; j < k; j++) for (long i = 0; i < n; i++) feed(f.m_fac_V(i, j));
        return "k=" + str(k) + " beta=e:" + str(dbits(f.m_beta)) + " hash=" + str(h);
    }
};

// ---- the user's exceptions: serial number and copy counter make "the same object" observable ----
enum { FK_STD = 0, FK_RAW = 1, FK_INT = 2, FK_CSTR = 3, FK_RICH = 4, FK_INVARG = 5, FK_LOGIC = 6, FK_OOR = 7, FK_BADALLOC = 8, NFK = 9 };
static const char* const fk_name[NFK] = {"std_exception", "raw_struct", "int", "cstring", "runtime_error_rich", "invalid_argument_rich", "logic_error_rich", "out_of_range_rich", "bad_alloc_rich"};
static const int fk_stdlike[6] = {FK_STD, FK_RICH, FK_INVARG, FK_LOGIC, FK_OOR, FK_BADALLOC};     // derived from std::exception
static const int fk_nonstd[3] = {FK_RAW, FK_INT, FK_CSTR};                                       // not derived from it
static bool is_nonstd(int fk) { return fk == FK_RAW || fk == FK_INT || fk == FK_CSTR; }
static long g_fault_serial = 0, g_fault_copies = 0;
struct Fault14 : public UserFault {
    long serial;
    explicit Fault14(long k_) : UserFault(k_), serial(++g_fault_serial) {}
    Fault14(const Fault14& o) : UserFault(o), serial(o.serial) { g_fault_copies++; }
};
static long tag_of(long k, long serial, int j) { return (k + 1) * 7919 + serial * 104729 + j * 31; }
// a user error type that has nothing to do with <exception>
struct RawFault14 {
    long k, serial, tag;
    explicit RawFault14(long k_) : k(k_), serial(++g_fault_serial), tag(tag_of(k_, serial, 0)) {}
    RawFault14(const RawFault14& o) : k(o.k), serial(o.serial), tag(o.tag) { g_fault_copies++; }
    bool data_ok() const { return tag == tag_of(k, serial, 0); }
};
static const char* rich_msg(long k) { static char b[64]; std::snprintf(b, sizeof b, "fault14: user operator failed at application %ld", k); return b; }
// user classes derived from a STANDARD exception type, carrying more than the base class does: `throw e;` in a handler loses type
// and data, a typed handler that "translates" the base type replaces the user's object
struct RichData { long k = -1, serial = -1, tag[4] = {0, 0, 0, 0}; int kind = -1; virtual ~RichData() {}
    virtual const std::type_info& self_type() const = 0; virtual bool msg_ok() const = 0;
    bool data_ok() const { for (int j = 0; j < 4; j++) if (tag[j] != tag_of(k, serial, j + 1)) return false; return msg_ok(); } };
template <class B> struct BaseOf { static B make(long k) { return B(rich_msg(k)); } static bool msg(const B& b, long k) { return std::strcmp(b.what(), rich_msg(k)) == 0; } };
template <> struct BaseOf<std::bad_alloc> { static std::bad_alloc make(long) { return std::bad_alloc(); } static bool msg(const std::bad_alloc&, long) { return true; } };
template <class B, int Kind> struct RichFault : public B, public RichData {
    explicit RichFault(long k_) : B(BaseOf<B>::make(k_)) { k = k_; serial = ++g_fault_serial; kind = Kind; for (int j = 0; j < 4; j++) tag[j] = tag_of(k_, serial, j + 1); }
    RichFault(const RichFault& o) : B(o), RichData(o) { g_fault_copies++; }
    const std::type_info& self_type() const override { return typeid(RichFault); }
    bool msg_ok() const override { return BaseOf<B>::msg(*this, k); }
};
static char g_cstr[64], g_what[200];
static const char* cstr_msg(long k) { static char b[64]; std::snprintf(b, sizeof b, "fault14 cstring %ld", k); return b; }

// ---- one log for ALL operator applications (A- and B-operator) of a solver, in call order ----
struct Log14 {
    long count = 0, countA = 0; uint64_t hash = 1469598103934665603ull; long throw_at = -1, poison_at = -1; int fkind = FK_STD; std::vector<uint64_t>* record = nullptr;
    void clear() { count = 0; countA = 0; hash = 1469598103934665603ull; }
    [[noreturn]] void raise(long k) const {
        switch (fkind) {
        case FK_RAW: throw RawFault14(k);
        case FK_INT: ++g_fault_serial; throw (int) k;
        case FK_CSTR: ++g_fault_serial; std::snprintf(g_cstr, sizeof g_cstr, "%s", cstr_msg(k)); throw (const char*) g_cstr;
        case FK_RICH: throw RichFault<std::runtime_error, FK_RICH>(k);
        case FK_INVARG: throw RichFault<std::invalid_argument, FK_INVARG>(k);
        case FK_LOGIC: throw RichFault<std::logic_error, FK_LOGIC>(k);
        case FK_OOR: throw RichFault<std::out_of_range, FK_OOR>(k);
        case FK_BADALLOC: throw RichFault<std::bad_alloc, FK_BADALLOC>(k);
        default: throw Fault14(k);
        }
    }
    void enter(int channel, const double* x, long n) {
        count++; if (channel == 0) countA++;
        hash ^= (uint64_t) (channel + 1); hash *= 1099511628211ull;
        for (long i = 0; i < n; i++) { uint64_t u = dbits(x[i]); for (int b = 0; b < 8; b++) { hash ^= (u >> (8 * b)) & 0xff; hash *= 1099511628211ull; } }
        if (record && record->size() < record->capacity()) record->push_back(hash);
        if (throw_at >= 0 && count == throw_at) raise(count);
    }
};

// y = M x, each row accumulated left to right from +0 (Arnoldi.rowMajorOp of the model)
struct FMatOp {
    using Scalar = double; const Mat* M; Log14* log; int channel;
    FMatOp(const Mat& m, Log14& l, int ch = 0) : M(&m), log(&l), channel(ch) {}
    Eigen::Index rows() const { return M->rows(); } Eigen::Index cols() const { return M->cols(); }
    void perform_op(const double* x, double* y) const {
        const long n = M->rows(), m = M->cols(); log->enter(channel, x, m);
        for (long i = 0; i < n; i++) { double s = 0.0; for (long j = 0; j < m; j++) s += (*M)(i, j) * x[j]; y[i] = s; }
    }
    void set_shift(const double&) {}
};
struct FHermOp {
    using Scalar = CD; const CMat* M; Log14* log;
    FHermOp(const CMat& m, Log14& l) : M(&m), log(&l) {}
    Eigen::Index rows() const { return M->rows(); } Eigen::Index cols() const { return M->cols(); }
    void perform_op(const CD* x, CD* y) const {
        const long n = M->rows(); log->enter(0, reinterpret_cast<const double*>(x), 2 * n);
        for (long i = 0; i < n; i++) { CD s = 0.0; for (long j = 0; j < n; j++) s += (*M)(i, j) * x[j]; y[i] = s; }
    }
};
// Re[(A - sigma I)^{-1} x] with whatever shift the solver has installed; EVERY application (iteration and probing) can fail
struct FCplxShiftOp {
    using Scalar = double; const Mat* A; Log14* log; Mat R; double sr = 0, si = 0; long nset = 0;
    FCplxShiftOp(const Mat& a, Log14& l) : A(&a), log(&l) {}
    Eigen::Index rows() const { return A->rows(); } Eigen::Index cols() const { return A->cols(); }
    void set_shift(const double& r_, const double& i_) { sr = r_; si = i_; nset++;
        CMat M = A->cast<CD>(); for (long k = 0; k < M.rows(); k++) M(k, k) -= CD(r_, i_); CMat Inv = M.partialPivLu().inverse(); R = Inv.real(); }
    void perform_op(const double* x, double* y) const { const long n = rows(); log->enter(0, x, n);
        for (long i = 0; i < n; i++) { double s = R(i, 0) * x[0]; for (long j = 1; j < n; j++) s += R(i, j) * x[j]; y[i] = s; } }
};
struct FCholesky : public Spectra::DenseCholesky<double> { Log14* log;
    FCholesky(const Mat& B, Log14& l) : Spectra::DenseCholesky<double>(B), log(&l) {}
    void lower_triangular_solve(const double* x, double* y) const { log->enter(1, x, rows()); Spectra::DenseCholesky<double>::lower_triangular_solve(x, y); }
    void upper_triangular_solve(const double* x, double* y) const { log->enter(1, x, rows()); Spectra::DenseCholesky<double>::upper_triangular_solve(x, y); } };
struct FRegInv : public Spectra::SparseRegularInverse<double> { Log14* log;
    FRegInv(const SpMat& B, Log14& l) : Spectra::SparseRegularInverse<double>(B), log(&l) {}
    void solve(const double* x, double* y) const { log->enter(1, x, rows()); Spectra::SparseRegularInverse<double>::solve(x, y); }
    void perform_op(const double* x, double* y) const { log->enter(1, x, rows()); Spectra::SparseRegularInverse<double>::perform_op(x, y); } };
struct FSymProd : public Spectra::DenseSymMatProd<double> { Log14* log; int channel;
    FSymProd(const Mat& A, Log14& l, int ch) : Spectra::DenseSymMatProd<double>(A), log(&l), channel(ch) {}
    void perform_op(const double* x, double* y) const { log->enter(channel, x, rows()); Spectra::DenseSymMatProd<double>::perform_op(x, y); } };
// fault kind "poison": the user's A-operator does not throw; at its poison_at-th application it RETURNS a vector containing NaN.
// The library's own thrower then fires further down the operator stack (SparseRegularInverse::solve: CG fails -> std::runtime_error).
struct PSymProd : public Spectra::DenseSymMatProd<double> { Log14* log;
    PSymProd(const Mat& A, Log14& l) : Spectra::DenseSymMatProd<double>(A), log(&l) {}
    void perform_op(const double* x, double* y) const { log->enter(0, x, rows()); Spectra::DenseSymMatProd<double>::perform_op(x, y);
        if (log->poison_at >= 0 && log->countA == log->poison_at) y[0] = std::numeric_limits<double>::quiet_NaN(); } };
typedef Spectra::SymShiftInvert<double, Eigen::Dense, Eigen::Dense> SIBase;
struct FShiftInvert : public SIBase { Log14* log;
    FShiftInvert(const Mat& A, const Mat& B, Log14& l) : SIBase(A, B), log(&l) {}
    void perform_op(const double* x, double* y) const { log->enter(0, x, rows()); SIBase::perform_op(x, y); } };

// ---- results of one init; compute ----
struct Res {
    long napps = 0; bool threw = false; std::string exn; long ret = -1; int info = -1; long niter = -1, nmatop = -1; std::vector<uint64_t> ev, X; long rows = 0, cols = 0;
    bool operator==(const Res& o) const { return threw == o.threw && exn == o.exn && ret == o.ret && info == o.info && niter == o.niter && nmatop == o.nmatop && ev == o.ev && X == o.X && rows == o.rows && cols == o.cols; }
};
static void push(std::vector<uint64_t>& v, double x) { v.push_back(dbits(x)); }
static void push(std::vector<uint64_t>& v, CD x) { v.push_back(dbits(x.real())); v.push_back(dbits(x.imag())); }
static std::string diff(const Res& a, const Res& b) {
    if (a.threw != b.threw || a.exn != b.exn) return "outcome (" + (a.threw ? a.exn : std::string("returned")) + " vs " + (b.threw ? b.exn : std::string("returned")) + ")";
    if (a.ret != b.ret) return "return value " + str(a.ret) + " vs " + str(b.ret);
    if (a.info != b.info) return "info() " + str(a.info) + " vs " + str(b.info);
    if (a.niter != b.niter) return "num_iterations() " + str(a.niter) + " vs " + str(b.niter);
    if (a.nmatop != b.nmatop) return "num_operations() " + str(a.nmatop) + " vs " + str(b.nmatop);
    if (a.ev != b.ev) return "eigenvalues() bits";
    if (a.X != b.X || a.rows != b.rows || a.cols != b.cols) return "eigenvectors() bits";
    return "";
}

// ---- a solver together with everything it refers to; H must provide init(), compute(), S& solver() ----
struct Params { int n, nev, ncv, sel, sort; long maxit; double tol; Vec v0; bool dflt = false; };   // dflt: v0 IS the library's default start vector and the argument-less init() is called
template <class H> static void run_clean(H& h, Log14& log, Res& r) {
    r = Res(); log.clear(); log.throw_at = -1; log.poison_at = -1;
    const char* tn = nullptr;
    {   Track t;
        try { h.init(); r.ret = h.compute(); r.napps = log.count; }
        catch (const std::exception& e) { r.threw = true; tn = typeid(e).name(); }
        catch (...) { r.threw = true; tn = "(not a std::exception)"; }
    }
    if (tn) r.exn = std::string("threw ") + tn;      // (string built outside the tracked region)
    auto& s = h.solver();
    r.info = (int) s.info(); r.niter = (long) s.num_iterations(); r.nmatop = (long) s.num_operations();
    if (!r.threw) { auto ev = s.eigenvalues(); for (long i = 0; i < ev.size(); i++) push(r.ev, ev[i]);
        auto X = s.eigenvectors(); r.rows = X.rows(); r.cols = X.cols(); for (long j = 0; j < X.cols(); j++) for (long i = 0; i < X.rows(); i++) push(r.X, X(i, j)); }
}
// outcome of one faulted init(); compute().  caught: -1 = returned normally, 0..4 = an object of that fault kind, 10 = some other
// std::exception, 11 = something else; dyn_ok: dynamic type is exactly the user's class; data_ok: payload beyond the index intact
struct Fo { char stage = '-'; int thrown = 0, caught = -1; long payload = -1, serial = -1, made = 0, copies = 0, entered = 0, enteredA = 0, nmatop = -1, niter = -1, dblocks = 0; int info = -1, info0 = -1;
    bool prefix_ok = true, op_ok = true, dyn_ok = true, data_ok = true, stale = false, sliced = false; const char* tname = "";
    bool user() const { return caught == thrown; } };
template <class H> static Fo faulted(H& h, Log14& log, long k, int fkind, const std::vector<uint64_t>& prefix, bool repair = true) {
    Fo o; auto& s = h.solver(); o.info0 = (int) s.info(); o.thrown = fkind;
    log.clear(); log.throw_at = k; log.fkind = fkind; const long ser0 = g_fault_serial, cop0 = g_fault_copies; const long b0 = g_live;
    {   Track t;
        try { o.stage = 'I'; h.init(); o.stage = 'C'; h.compute(); o.stage = 'N'; }
        catch (const Fault14& f) { o.caught = FK_STD; o.payload = f.k; o.serial = f.serial; o.dyn_ok = typeid(f) == typeid(Fault14); o.data_ok = std::strcmp(f.what(), "user operator fault") == 0; }
        catch (const std::exception& e) {
            const std::type_info& ti = typeid(e);
            if (const RichData* d = dynamic_cast<const RichData*>(&e)) {      // one of the user's rich classes, whatever its standard base
                o.caught = d->kind; o.payload = d->k; o.serial = d->serial; o.dyn_ok = ti == d->self_type(); o.data_ok = d->data_ok();
            } else {
                o.caught = 10; o.tname = ti.name(); std::snprintf(g_what, sizeof g_what, "%s", e.what());
                // an object of a BASE class of the user's exception ...
                const bool root = ti == typeid(std::exception), lg = ti == typeid(std::logic_error);
                const bool base = (fkind == FK_STD && (ti == typeid(UserFault) || root)) || (fkind == FK_RICH && (ti == typeid(std::runtime_error) || root)) ||
                    (fkind == FK_INVARG && (ti == typeid(std::invalid_argument) || lg || root)) || (fkind == FK_LOGIC && (lg || root)) ||
                    (fkind == FK_OOR && (ti == typeid(std::out_of_range) || lg || root)) || (fkind == FK_BADALLOC && (ti == typeid(std::bad_alloc) || root));
                // ... that is a COPY of it (what `throw e;` in a `catch (const Base& e)` handler produces: the message, where the base
                // has one, is the user's); otherwise a new object made by the library = replaced
                const bool has_msg = ti == typeid(std::runtime_error) || ti == typeid(std::invalid_argument) || lg || ti == typeid(std::out_of_range);
                o.sliced = base && (!has_msg || std::strcmp(e.what(), rich_msg(k)) == 0);
            } }
        catch (const RawFault14& f) { o.caught = FK_RAW; o.payload = f.k; o.serial = f.serial; o.data_ok = f.data_ok(); }
        catch (int v) { o.caught = FK_INT; o.payload = v; o.serial = g_fault_serial; }
        catch (const char* p) { o.caught = FK_CSTR; o.serial = g_fault_serial; o.dyn_ok = p == g_cstr; o.payload = o.dyn_ok ? k : -2; o.data_ok = o.dyn_ok && std::strcmp(p, cstr_msg(k)) == 0; }
        catch (...) { o.caught = 11; }
    }
    o.dblocks = g_live - b0; log.throw_at = -1; log.fkind = FK_STD; o.made = g_fault_serial - ser0; o.copies = g_fault_copies - cop0; o.entered = log.count; o.enteredA = log.countA;
    if (o.caught >= 0 && o.caught < NFK && o.serial != g_fault_serial) o.stale = true;
    o.info = (int) s.info(); o.niter = (long) s.num_iterations(); o.nmatop = (long) s.num_operations();
    // reported; then (unless the caller wants to see the consequence in the recovery run) repaired as a user would have to, so that the remaining clauses stay testable
    if (!h.op_state_ok()) { o.op_ok = false; if (repair) h.op_repair(); }
    o.prefix_ok = log.count >= 1 && log.count <= (long) prefix.size() && log.hash == prefix[log.count - 1];
    return o;
}

struct Ctx { Out* out; uint64_t seed; long caseno; std::string cls; std::string desc; const Params* P; bool thorough; };
static std::string rj(const Ctx& c, long k, long k2, const char* obj, const char* fk = "std_exception", const char* fk2 = "") {
    const Params& P = *c.P;
    return "{\"harness\":\"c14\",\"seed\":" + str(c.seed) + ",\"tier\":\"" + (c.thorough ? "thorough" : "quick") + "\",\"case\":" + str(c.caseno) + ",\"class\":\"" + c.cls + "\",\"n\":" + str(P.n) + ",\"nev\":" + str(P.nev) + ",\"ncv\":" + str(P.ncv) +
        ",\"sel\":" + str(P.sel) + ",\"sort\":" + str(P.sort) + ",\"maxit\":" + str(P.maxit) + ",\"tol\":" + str(P.tol) + ",\"fault_kind\":\"" + fk + "\",\"fault_at\":" + str(k) +
        ",\"second_fault_at\":" + str(k2) + (k2 > 0 ? std::string(",\"second_fault_kind\":\"") + fk2 + "\"" : std::string("")) + ",\"object\":\"" + obj + "\",\"desc\":\"" + jesc(c.desc) + "\"}";
}
// judge one faulted call (fault kind o.thrown at application k; the history is: kind fk1 at k1, then kind fk2 at k2); returns false if the call did not end with the user's exception
static bool judge(Ctx& c, const Fo& o, long k, long k1, int fk1, long k2, int fk2, const char* obj, bool warm) {
    Out& out = *c.out; out.count("oracle_fault"); out.count(std::string("stage_") + o.stage); out.count(std::string("kind_") + fk_name[o.thrown]);
    const std::string J = rj(c, k1, k2, obj, fk_name[fk1], fk_name[fk2]);
    const std::string where = c.cls + ": fault (" + fk_name[o.thrown] + ") at application " + str(k) + (o.stage == 'I' ? " (inside init())" : " (inside compute())");
    if (o.stage == 'C' && is_nonstd(o.thrown)) out.count("nonstd_fault_inside_compute");
    if (o.stage == 'I' && !is_nonstd(o.thrown) && o.thrown != FK_STD) out.count("stdderived_rich_fault_inside_init");
    // the operator's state is judged whatever left the call (it is what the next init(); compute() runs with)
    if (!o.op_ok) out.fail("operator-state-after-fault", where + ": the user's operator object is left in a modified state (the shift installed at construction has been replaced by the solver's probing shift and is not restored when the exception passes through)", J);
    if (o.caught < 0) { out.fail("exception-swallowed", where + ": init(); compute() returned normally, the user's exception was swallowed (operator entered " + str(o.entered) + " times)", J); return false; }
    if (!o.user()) {
        const std::string got = o.caught == 10 ? std::string(o.tname) + " what()=\"" + g_what + "\"" : o.caught == 11 ? std::string("not a std::exception") : std::string(fk_name[o.caught]);
        if (o.sliced) out.fail("exception-sliced", where + ": the object that left the call is a " + got + ", a base-class COPY of the user's exception: dynamic type and payload are lost (re-thrown by value, `throw e;`, instead of `throw;`)", J);
        else out.fail("exception-replaced", where + ": a different exception left the call (" + got + ")", J);
        return false; }
    if (o.stale || o.payload != k || o.made != 1 || o.copies != 0 || !o.dyn_ok || !o.data_ok)
        out.fail("exception-identity", where + ": the exception caught is not the object thrown (payload " + str(o.payload) + ", thrown " + str(o.made) + " time(s), copied " + str(o.copies) + " time(s), dynamic type " + (o.dyn_ok ? "kept" : "changed") + ", extra data " + (o.data_ok ? "intact" : "damaged") + ")", J);
    if (o.entered != k) out.fail("application-after-fault", where + ": the operator was applied " + str(o.entered - k) + " more time(s) after the failing application", J);
    if (!o.prefix_ok) out.fail("oplog-not-prefix", where + ": the vectors handed to the operator up to the fault are not those of the fault-free run", J);
    if (o.info != o.info0) out.fail("fault-changes-info", where + ": info() changed from " + str(o.info0) + " to " + str(o.info), J);
    if (o.niter != 0) out.fail("fault-niter", where + ": num_iterations() = " + str(o.niter) + " after the interrupted call (init() sets it to 0, compute() updates it only on return)", J);
    if (o.nmatop < 0 || o.nmatop > o.enteredA) out.fail("fault-opcount", where + ": num_operations() = " + str(o.nmatop) + " but only " + str(o.enteredA) + " A-operator applications were started", J);
    if (warm && o.dblocks != 0) out.fail("leak-after-unwind", where + ": " + str(o.dblocks) + " heap block(s) more are live after the exception left the call than before the call (already used solver object)", J);
    return true;
}
static std::string fo_resp(const Fo& o) {
    if (o.caught < 0) return " | ok nmatop=2 | ret=? (not hit)";
    std::string ex = o.user() ? "user:" + str(o.payload) : std::string("other");
    if (o.stage == 'I') return " | throw " + ex + " nmatop=" + str(o.nmatop);
    return " | ok nmatop=2 | throw " + ex + " info=" + str(o.info) + " niter=" + str(o.niter) + " nmatop=" + str(o.nmatop);
}

template <class Make, class Resp> static void sweep(Ctx& c, Log14& log, Make make, const std::string* hdr, Resp clean_resp) {
    Out& out = *c.out; const Params& P = *c.P; Rng r(c.seed, 14, c.caseno);
    const long kmax = c.thorough ? 400 : 90;
    std::vector<uint64_t> prefix; prefix.reserve(4096);
    typedef decltype(make()) HP; HP W;
    { Track t; W = make(); }
    Res R0, R1, Rk;
    log.record = &prefix; run_clean(*W, log, R0); log.record = nullptr;
    const long K = R0.napps;
    out.count("cls_" + c.cls);
    if (R0.threw) { out.count("baseline_throws"); Track t; W.reset(); return; }
    if (K > kmax) { out.count("baseline_too_long"); Track t; W.reset(); return; }
    out.count("oracle_baseline"); out.count("applications_total", K); out.count(R0.ret == P.nev ? "baseline_converged" : "baseline_not_converged");
    run_clean(*W, log, R1);
    if (!(R1 == R0)) out.fail("baseline-not-reproducible", c.cls + ": a second init(); compute() on the same object differs from the first in " + diff(R1, R0), rj(c, 0, 0, "warm"));
    for (long k = 1; k <= K; k++) {
        const bool pair = c.thorough ? (k % 2 == 0) : (k % 4 == 0); const long k2 = pair ? 1 + (long) r.below((uint64_t) K) : 0;
        // fault kinds: thorough = all kinds on both objects; quick = one std-derived kind on one object and one non-std kind on the other
        // (see the head of this file).  The second fault of a pair is of the NEXT kind (histories mix kinds).
        const long mix = k + c.caseno + c.caseno / 12; const int rot = (int) (mix % NFK); const int nk = c.thorough ? NFK : 1;
        const int qs = fk_stdlike[mix % 6], qn = fk_nonstd[mix % 3]; const bool swap = c.caseno % 2 == 1;
        std::string resp0; int kind0 = 0;
        for (int q = 0; q < nk; q++) {
            const int fw = c.thorough ? (rot + q) % NFK : (swap ? qn : qs), fw2 = (fw + 1) % NFK;          // warm object
            const int ff = c.thorough ? (rot + 2 + q) % NFK : (swap ? qs : qn), ff2 = (ff + 1) % NFK;      // fresh object
            { std::ofstream lc(out.dir + "/lastcase.txt"); lc << "c14 case " << c.caseno << " seed " << c.seed << " tier " << (c.thorough ? "thorough" : "quick") << " class " << c.cls << " n " << P.n << " nev " << P.nev << " ncv " << P.ncv << " fault_at " << k << " second_fault_at " << k2
                << " fault kinds: warm object " << fk_name[fw] << (pair ? std::string(" then ") + fk_name[fw2] : std::string("")) << ", fresh object " << fk_name[ff] << (pair ? std::string(" then ") + fk_name[ff2] : std::string("")) << "\n"; }
            // (1) already used object
            Fo f1 = faulted(*W, log, k, fw, prefix); judge(c, f1, k, k, fw, k2, fw2, "warm", true);
            if (pair) { Fo f2 = faulted(*W, log, k2, fw2, prefix); judge(c, f2, k2, k, fw, k2, fw2, "warm", true); out.count("oracle_pair"); }
            run_clean(*W, log, Rk);
            if (!(Rk == R0)) out.fail("recovery-differs", c.cls + ": after a fault (" + fk_name[fw] + ") at application " + str(k) + (pair ? " and a second one (" + std::string(fk_name[fw2]) + ") at " + str(k2) + " of the recovery run" : std::string("")) + ", init(); compute() on the same (already used) object differs from the fault-free baseline in " + diff(Rk, R0), rj(c, k, k2, "warm", fk_name[fw], fk_name[fw2]));
            out.count("oracle_recovery");
            // (2) fresh object, destroyed afterwards: nothing may stay allocated.  Without a second fault the operator is NOT repaired
            //     by the harness: a damaged operator shows in the recovery run, as it would for the user
            const long L0 = g_live; std::string resp; Res Rf;
            {   HP F;
                { Track t; F = make(); }
                Fo g1 = faulted(*F, log, k, ff, prefix, pair); judge(c, g1, k, k, ff, k2, ff2, "fresh", false); resp += fo_resp(g1);
                if (pair) { Fo g2 = faulted(*F, log, k2, ff2, prefix); judge(c, g2, k2, k, ff, k2, ff2, "fresh", false); resp += fo_resp(g2); }
                run_clean(*F, log, Rf);
                if (!(Rf == R0)) out.fail("recovery-differs", c.cls + ": after a fault (" + fk_name[ff] + ") at application " + str(k) + (pair ? " and a second one (" + std::string(fk_name[ff2]) + ") at " + str(k2) + " of the recovery run" : std::string("")) + ", init(); compute() on the same (fresh) object differs from the fault-free baseline in " + diff(Rf, R0), rj(c, k, k2, "fresh", fk_name[ff], fk_name[ff2]));
                out.count("oracle_recovery");
                if (hdr) resp += clean_resp(*F, Rf);
                { Track t; F.reset(); }
            }
            if (g_live != L0) out.fail("leak-after-destroy", c.cls + ": " + str(g_live - L0) + " heap block(s) still live after fault (" + fk_name[ff] + ") at application " + str(k) + ", recovery and destruction of the solver", rj(c, k, k2, "fresh", fk_name[ff], fk_name[ff2]));
            // the model knows one exception `Exn.user k`: the history must not depend on the C++ type of the user's exception
            if (q == 0) { resp0 = resp; kind0 = ff; }
            else { out.count("kind_independence_checked"); if (resp != resp0) out.fail("history-depends-on-fault-kind", c.cls + ": the fault history (outcomes, counters at the throw, recovery run) with fault kind " + fk_name[ff] + " at application " + str(k) + " differs from the one with fault kind " + fk_name[kind0], rj(c, k, k2, "fresh", fk_name[ff], fk_name[ff2])); }
        }
        if (hdr) { out.corr(*hdr + (pair ? " 2 " + str(k) + " " + str(k2) : " 1 " + str(k)), resp0.size() > 3 ? resp0.substr(3) : resp0); out.count(hdr->compare(0, 4, "genf") == 0 ? "tied_genf" : "tied_hermf"); }
    }
    if (hdr) {   // the fault-free history itself
        HP F; { Track t; F = make(); } Res Rf; run_clean(*F, log, Rf);
        std::string resp = clean_resp(*F, Rf); out.corr(*hdr + " 0", resp.size() > 3 ? resp.substr(3) : resp); { Track t; F.reset(); }
    }
    { Track t; W.reset(); }
}

// ---- poison sweep: the LIBRARY's thrower (real SparseRegularInverse as B operator) fires at the k-th A-application, k = 1..K ----
template <class Make> static void poison_sweep(Ctx& c, Log14& log, Make make) {
    Out& out = *c.out; const Params& P = *c.P;
    const long kmax = c.thorough ? 400 : 90;
    typedef decltype(make()) HP; HP W; { Track t; W = make(); }
    Res R0, Rk; run_clean(*W, log, R0); const long K = log.countA;
    if (R0.threw || K > kmax) { out.count(R0.threw ? "poison_baseline_throws" : "poison_baseline_too_long"); Track t; W.reset(); return; }
    out.count("oracle_poison_baseline");
    auto rjp = [&](long k, const char* obj) { return rj(c, k, 0, obj, "poison"); };
    // one poisoned init(); compute(): kind 1 = std::runtime_error left the call, 0 = returned normally, 2 = other std exception, 3 = other
    auto poisoned = [&](decltype(*W)& h, long k, long& dblocks, char& stage, int& info0, int& info1, long& niter, long& nmatop, long& enteredA, const char*& tn) {
        auto& s = h.solver(); info0 = (int) s.info(); int kind = 0; tn = "";
        log.clear(); log.throw_at = -1; log.poison_at = k; const long b0 = g_live;
        {   Track t;
            try { stage = 'I'; h.init(); stage = 'C'; h.compute(); stage = 'N'; }
            catch (const std::runtime_error&) { kind = 1; }
            catch (const std::exception& e) { kind = 2; tn = typeid(e).name(); }
            catch (...) { kind = 3; }
        }
        dblocks = g_live - b0; log.poison_at = -1; enteredA = log.countA;
        info1 = (int) s.info(); niter = (long) s.num_iterations(); nmatop = (long) s.num_operations();
        return kind;
    };
    for (long k = 1; k <= K; k++) {
        { std::ofstream lc(out.dir + "/lastcase.txt"); lc << "c14 case " << c.caseno << " seed " << c.seed << " class " << c.cls << " poison_at " << k << "\n"; }
        for (int fresh = 0; fresh < 2; fresh++) {
            const char* obj = fresh ? "fresh" : "warm"; const long L0 = g_live;
            {   HP F; if (fresh) { Track t; F = make(); }
                auto& h = fresh ? *F : *W;
                long db = 0, niter = 0, nmatop = 0, entA = 0; char stage = '-'; int i0 = 0, i1 = 0; const char* tn = "";
                const int kind = poisoned(h, k, db, stage, i0, i1, niter, nmatop, entA, tn);
                out.count("oracle_poison"); out.count(std::string("poison_stage_") + stage);
                const std::string where = c.cls + " with SparseRegularInverse as B operator: A-operator returns NaN at its application " + str(k) + (stage == 'I' ? " (inside init())" : " (inside compute())");
                if (kind == 0) out.fail("lib-thrower-silent", where + ": init(); compute() returned normally although the B solve cannot have converged (no std::runtime_error from SparseRegularInverse::solve)", rjp(k, obj));
                else if (kind != 1) out.fail("lib-exception-replaced", where + ": an exception other than std::runtime_error left the call (" + std::string(kind == 2 ? tn : "non-std") + ")", rjp(k, obj));
                else {
                    if (entA != k) out.fail("application-after-fault", where + ": the A-operator was applied " + str(entA - k) + " more time(s) after the application whose B solve failed", rjp(k, obj));
                    if (i1 != i0) out.fail("fault-changes-info", where + ": info() changed from " + str(i0) + " to " + str(i1), rjp(k, obj));
                    if (niter != 0) out.fail("fault-niter", where + ": num_iterations() = " + str(niter) + " after the interrupted call", rjp(k, obj));
                    if (nmatop < 0 || nmatop > entA) out.fail("fault-opcount", where + ": num_operations() = " + str(nmatop) + " but only " + str(entA) + " applications were started", rjp(k, obj));
                }
                if (!fresh && db != 0) out.fail("leak-after-unwind", where + ": " + str(db) + " heap block(s) more are live after the exception left the call than before the call (already used solver object)", rjp(k, obj));
                run_clean(h, log, Rk);     // the fault is gone: SAME solver object, SAME B-operator object
                if (!(Rk == R0)) out.fail("recovery-differs", where + ": afterwards, with a healthy operator, init(); compute() on the same (" + std::string(fresh ? "fresh" : "already used") + ") solver and B-operator objects differs from the fault-free baseline in " + diff(Rk, R0), rjp(k, obj));
                out.count("oracle_poison_recovery");
                if (fresh) { Track t; F.reset(); }
            }
            if (fresh && g_live != L0) out.fail("leak-after-destroy", c.cls + " (poison): " + str(g_live - L0) + " heap block(s) still live after the library's exception at application " + str(k) + ", recovery and destruction of the solver", rjp(k, obj));
        }
    }
    { Track t; W.reset(); }
}

static std::string herm_header(int variant, const Params& P, double sigma, const Mat& M) {
    const double eps = Spectra::TypeTraits<double>::epsilon(); const double eps23 = std::pow(eps, double(2) / 3); const double near0 = Spectra::TypeTraits<double>::min() * double(10);
    return "hermf " + str(variant) + " " + str(P.n) + " " + str(P.nev) + " " + str(P.ncv) + " " + str(dbits(eps23)) + " " + str(dbits(near0)) + " " + str(dbits(eps)) + " " + str(dbits(sigma)) + mat_bits(M) +
        " " + str(P.sel) + " " + str(P.maxit) + " " + str(dbits(P.tol)) + " " + str(P.sort) + vec_bits(P.v0);
}
static std::string genf_header(int variant, const Params& P, double sigma, const Mat& M) {
    const double eps = Spectra::TypeTraits<double>::epsilon(); const double eps23 = std::pow(eps, double(2) / 3); const double near0 = Spectra::TypeTraits<double>::min() * double(10);
    return "genf " + str(variant) + " " + str(P.n) + " " + str(P.nev) + " " + str(P.ncv) + " " + str(dbits(eps23)) + " " + str(dbits(near0)) + " " + str(dbits(eps)) + " " + str(dbits(sigma)) + mat_bits(M) +
        " " + str(P.sel) + " " + str(P.maxit) + " " + str(dbits(P.tol)) + " " + str(P.sort) + vec_bits(P.v0);
}
static Mat inverse_ld(const Mat& A, double sigma) { MatL M = A.cast<LD>(); for (long i = 0; i < M.rows(); i++) M(i, i) -= (LD) sigma; MatL I = M.partialPivLu().inverse(); return I.cast<double>(); }
struct NoResp { template <class H> std::string operator()(H&, const Res&) const { return ""; } };
struct HermResp { const Params* P;
    template <class H> std::string operator()(H& h, const Res& R) const { auto& s = h.solver(); std::string a;
        if (R.threw) return " | ok nmatop=2 | throw other";
        a += " | ok nmatop=2 | ret=" + str(R.ret) + " info=" + str(R.info) + " niter=" + str(R.niter) + " nmatop=" + str(R.nmatop);
        Vec e1 = s.eigenvalues(); a += " | k=" + str((long) e1.size()); for (long i = 0; i < e1.size(); i++) a += " e:" + str(dbits(e1[i]));
        Mat X1 = s.eigenvectors(P->nev); a += " | rows=" + str(P->n) + " cols=" + str((long) X1.cols()); for (long j = 0; j < X1.cols(); j++) for (long i = 0; i < X1.rows(); i++) a += " " + str(dbits(X1(i, j) + 0.0));
        a += " | " + SpectraVerifAccess::fachash(SpectraVerifAccess::fac(s)); return a; } };

struct GenResp { const Params* P;
    template <class H> std::string operator()(H& h, const Res& R) const { auto& s = h.solver(); std::string a;
        if (R.threw) return " | ok nmatop=2 | throw other";
        a += " | ok nmatop=2 | ret=" + str(R.ret) + " info=" + str(R.info) + " niter=" + str(R.niter) + " nmatop=" + str(R.nmatop);
        CVec e1 = s.eigenvalues(); a += " | k=" + str((long) e1.size()); for (long i = 0; i < e1.size(); i++) a += " e:" + str(dbits(e1[i].real())) + " e:" + str(dbits(e1[i].imag()));
        CMat X1 = s.eigenvectors(P->nev); a += " | rows=" + str(P->n) + " cols=" + str((long) X1.cols()); for (long j = 0; j < X1.cols(); j++) for (long i = 0; i < X1.rows(); i++) a += " " + str(dbits(X1(i, j).real() + 0.0)) + " " + str(dbits(X1(i, j).imag() + 0.0));
        a += " | " + SpectraVerifAccess::fachash(SpectraVerifAccess::fac(s)); return a; } };

// ---- holders: operators + solver, constructed in this order ----
#define HOLDER_COMMON(SolverT) bool op_state_ok() const { return true; } void op_repair() {} HOLDER_BASE(SolverT)
#define HOLDER_BASE(SolverT) SolverT S; const Params* P; SolverT& solver() { return S; } void init() { if (P->dflt) S.init(); else S.init(P->v0.data()); } long compute() { return (long) S.compute((SortRule) P->sel, P->maxit, P->tol, (SortRule) P->sort); }
struct HSym { FMatOp op; HOLDER_COMMON(Spectra::SymEigsSolver<FMatOp>) HSym(const Mat& A, Log14& l, const Params& p) : op(A, l), S(op, p.nev, p.ncv), P(&p) {} };
struct HSymShift { FMatOp op; HOLDER_COMMON(Spectra::SymEigsShiftSolver<FMatOp>) HSymShift(const Mat& Inv, Log14& l, const Params& p, double sigma) : op(Inv, l), S(op, p.nev, p.ncv, sigma), P(&p) {} };
struct HHerm { FHermOp op; Spectra::HermEigsSolver<FHermOp> S; const Params* P; CVec z; Spectra::HermEigsSolver<FHermOp>& solver() { return S; }
    bool op_state_ok() const { return true; } void op_repair() {}
    void init() { S.init(z.data()); } long compute() { return (long) S.compute((SortRule) P->sel, P->maxit, P->tol, (SortRule) P->sort); }
    HHerm(const CMat& A, Log14& l, const Params& p) : op(A, l), S(op, p.nev, p.ncv), P(&p), z(p.v0.cast<CD>()) { for (int i = 0; i < p.n; i++) z[i] += CD(0, 0.5 * p.v0[(i + 1) % p.n]); } };
struct HGen { FMatOp op; HOLDER_COMMON(Spectra::GenEigsSolver<FMatOp>) HGen(const Mat& A, Log14& l, const Params& p) : op(A, l), S(op, p.nev, p.ncv), P(&p) {} };
struct HGenReal { FMatOp op; HOLDER_COMMON(Spectra::GenEigsRealShiftSolver<FMatOp>) HGenReal(const Mat& Inv, Log14& l, const Params& p, double sigma) : op(Inv, l), S(op, p.nev, p.ncv, sigma), P(&p) {} };
struct HGenCplx { FCplxShiftOp op; double sr0, si0; HOLDER_BASE(Spectra::GenEigsComplexShiftSolver<FCplxShiftOp>)
    // the user's operator must be left with the shift given at construction (it is not re-installed by init())
    bool op_state_ok() const { return op.sr == sr0 && op.si == si0; } void op_repair() { op.set_shift(sr0, si0); }
    HGenCplx(const Mat& A, Log14& l, const Params& p, double sr, double si) : op(A, l), sr0(sr), si0(si), S(op, p.nev, p.ncv, sr, si), P(&p) {} };
typedef Spectra::SymGEigsSolver<FSymProd, FCholesky, Spectra::GEigsMode::Cholesky> GChol;
struct HGChol { FSymProd op; FCholesky Bop; HOLDER_COMMON(GChol) HGChol(const Mat& A, const Mat& B, Log14& l, const Params& p) : op(A, l, 0), Bop(B, l), S(op, Bop, p.nev, p.ncv), P(&p) {} };
typedef Spectra::SymGEigsSolver<FSymProd, FRegInv, Spectra::GEigsMode::RegularInverse> GReg;
struct HGReg { FSymProd op; SpMat Bs; FRegInv Bop; HOLDER_COMMON(GReg) HGReg(const Mat& A, const Mat& B, Log14& l, const Params& p) : op(A, l, 0), Bs(B.sparseView()), Bop(Bs, l), S(op, Bop, p.nev, p.ncv), P(&p) {} };
typedef Spectra::SymGEigsSolver<PSymProd, Spectra::SparseRegularInverse<double>, Spectra::GEigsMode::RegularInverse> GRegP;
struct HGRegP { PSymProd op; SpMat Bs; Spectra::SparseRegularInverse<double> Bop; HOLDER_COMMON(GRegP) HGRegP(const Mat& A, const Mat& B, Log14& l, const Params& p) : op(A, l), Bs(B.sparseView()), Bop(Bs), S(op, Bop, p.nev, p.ncv), P(&p) {} };
template <Spectra::GEigsMode Mode> struct HGShift { FShiftInvert op; FSymProd Bop; typedef Spectra::SymGEigsShiftSolver<FShiftInvert, FSymProd, Mode> ST; HOLDER_COMMON(ST)
    HGShift(const Mat& A, const Mat& B, const Mat& Bprod, Log14& l, const Params& p, double sigma) : op(A, B, l), Bop(Bprod, l, 1), S(op, Bop, p.nev, p.ncv, sigma), P(&p) {} };

int main(int argc, char** argv) {
    Args args(argc, argv); Out out(args.out);
#if defined(__SANITIZE_ADDRESS__)
    if (!__sanitizer_install_malloc_and_free_hooks(c14_malloc_hook, c14_free_hook)) { std::fprintf(stderr, "c14: cannot install allocator hooks\n"); return 3; }
#endif
    out.count(g_hooks ? "heap_counter_asan_hooks" : "heap_counter_operator_new_only");
    bool thorough = args.thorough();
    // --replay FILE: re-run only the case named in the replay (same seed; the tier recorded there decides the size ranges)
    long only_case = -1;
    if (!args.replay.empty()) { std::ifstream rf(args.replay); std::stringstream ss; ss << rf.rdbuf(); const std::string t = ss.str();
        size_t p = t.find("\"case\":"); if (p != std::string::npos) only_case = std::strtol(t.c_str() + p + 7, nullptr, 10);
        p = t.find("\"tier\":"); if (p != std::string::npos) thorough = t.compare(t.find('"', p + 7) == std::string::npos ? 0 : t.find('"', p + 7), 9, "\"thorough") == 0; }
    const int ncases = thorough ? 600 : 120;
    for (int cs = 0; cs < ncases; cs++) {
        if (only_case >= 0 && cs != only_case) continue;
        Rng r(args.seed, 14, cs);
        const int cls = cs % 12; const bool gen = (cls >= 3 && cls <= 5);
        Params P; P.n = r.range(gen ? 5 : 4, thorough ? 12 : 8); P.nev = r.range(1, gen ? 2 : 3); if (P.nev > P.n - (gen ? 2 : 1)) P.nev = P.n - (gen ? 2 : 1);
        const int lo = P.nev + (gen ? 2 : 1); P.ncv = r.range(lo, std::min(P.n, lo + 3));
        static const int hsel[5] = {0, 3, 4, 7, 8}, hsort[4] = {0, 3, 4, 7}, grule[6] = {0, 1, 2, 4, 5, 6};
        P.sel = gen ? grule[r.below(6)] : hsel[r.below(5)]; P.sort = gen ? grule[r.below(6)] : hsort[r.below(4)];
        static const long mi[6] = {0, 1, 2, 3, 5, 30}; P.maxit = mi[r.below(6)]; static const double tl[3] = {1e-4, 1e-8, 1e-12}; P.tol = tl[r.below(3)];
        P.v0 = Vec(P.n); for (int j = 0; j < P.n; j++) P.v0[j] = r.sym();
        // in 40 % of the cases the faulted run and the recovery use the argument-less init(): v0 is then the vector that overload draws
        // (SimpleRandom seed 0), so the requests for the model, which carry v0 explicitly, describe the same run
        if (r.coin(0.4)) { Spectra::SimpleRandom<double> rng0(0); P.v0 = rng0.random_vec(P.n); P.dflt = true; out.count("default_init_cases"); }
        const int kind = r.range(0, 7); static const double scales[4] = {1.0, 1.0, 1e-5, 300.0}; const double scale = scales[r.below(4)];
        Log14 log; Ctx c{&out, args.seed, cs, "", "kind=" + str(kind) + " scale=" + str(scale), &P, thorough};
        const int n = P.n;
        try {
        switch (cls) {
        case 0: { Mat A = gen_sym(r, n, kind, scale); c.cls = "SymEigsSolver"; std::string hdr = herm_header(0, P, 0.0, A);
                  sweep(c, log, [&]() { return std::unique_ptr<HSym>(new HSym(A, log, P)); }, &hdr, HermResp{&P}); break; }
        case 1: { Mat A = gen_sym(r, n, kind == 4 ? 0 : kind, scale); double sigma = 0.37 * scale * r.sym() * 3; Mat Inv = inverse_ld(A, sigma); c.cls = "SymEigsShiftSolver"; std::string hdr = herm_header(1, P, sigma, Inv);
                  sweep(c, log, [&]() { return std::unique_ptr<HSymShift>(new HSymShift(Inv, log, P, sigma)); }, &hdr, HermResp{&P}); break; }
        case 2: { Mat Re = gen_sym(r, n, kind, scale); Mat Im = gen_general(r, n, 1, scale * 0.3); CMat A = Re.cast<CD>() + CD(0, 1) * Im.cast<CD>(); c.cls = "HermEigsSolver";
                  sweep(c, log, [&]() { return std::unique_ptr<HHerm>(new HHerm(A, log, P)); }, nullptr, NoResp()); break; }
        case 3: { Mat A = gen_general(r, n, kind % 7, scale); c.cls = "GenEigsSolver"; std::string hdr = genf_header(0, P, 0.0, A);
                  sweep(c, log, [&]() { return std::unique_ptr<HGen>(new HGen(A, log, P)); }, &hdr, GenResp{&P}); break; }
        case 4: { Mat A = gen_general(r, n, (kind % 7 == 5 || kind % 7 == 3) ? 0 : kind % 7, scale); double sigma = 1.7 * scale * (1 + r.unit()); Mat Inv = inverse_ld(A, sigma); c.cls = "GenEigsRealShiftSolver"; std::string hdr = genf_header(1, P, sigma, Inv);
                  sweep(c, log, [&]() { return std::unique_ptr<HGenReal>(new HGenReal(Inv, log, P, sigma)); }, &hdr, GenResp{&P}); break; }
        case 5: { Mat A = gen_general(r, n, (kind % 7 == 5 || kind % 7 == 3) ? 0 : kind % 7, scale); double sr = 0.9 * scale * r.sym(), si = 0.4 * scale * (0.2 + r.unit()); c.cls = "GenEigsComplexShiftSolver";
                  sweep(c, log, [&]() { return std::unique_ptr<HGenCplx>(new HGenCplx(A, log, P, sr, si)); }, nullptr, NoResp()); break; }
        default: {
            Mat A = gen_sym(r, n, kind, scale); Mat M = gen_general(r, n, 0, 1.0); Mat B = M * M.transpose() + Mat::Identity(n, n) * (0.5 + r.unit());
            double sigma = (0.3 + r.unit()) * scale * (r.coin() ? 1 : -1);
            if (cls == 6 || cls == 11) { c.cls = "SymGEigsSolver<Cholesky>"; sweep(c, log, [&]() { return std::unique_ptr<HGChol>(new HGChol(A, B, log, P)); }, nullptr, NoResp()); }
            else if (cls == 7) { c.cls = "SymGEigsSolver<RegularInverse>"; sweep(c, log, [&]() { return std::unique_ptr<HGReg>(new HGReg(A, B, log, P)); }, nullptr, NoResp());
                poison_sweep(c, log, [&]() { return std::unique_ptr<HGRegP>(new HGRegP(A, B, log, P)); }); }
            else if (cls == 8) { c.cls = "SymGEigsShiftSolver<ShiftInvert>"; sweep(c, log, [&]() { return std::unique_ptr<HGShift<Spectra::GEigsMode::ShiftInvert>>(new HGShift<Spectra::GEigsMode::ShiftInvert>(A, B, B, log, P, sigma)); }, nullptr, NoResp()); }
            else if (cls == 9) { c.cls = "SymGEigsShiftSolver<Buckling>"; sweep(c, log, [&]() { return std::unique_ptr<HGShift<Spectra::GEigsMode::Buckling>>(new HGShift<Spectra::GEigsMode::Buckling>(B, A, B, log, P, sigma)); }, nullptr, NoResp()); }
            else { c.cls = "SymGEigsShiftSolver<Cayley>"; sweep(c, log, [&]() { return std::unique_ptr<HGShift<Spectra::GEigsMode::Cayley>>(new HGShift<Spectra::GEigsMode::Cayley>(A, B, B, log, P, sigma)); }, nullptr, NoResp()); }
        } }
        } catch (const std::exception& e) { out.count(std::string("case_exception_") + (dynamic_cast<const std::invalid_argument*>(&e) ? "invalid_argument" : "other")); }
    }
    out.finish();
    return 0;
}
