// F18: JDSymEigsBase resets the initial search space to n/3 columns, which can be fewer than nev; check_convergence then
// tests only those pairs and compute()/eigenvalues() index nev entries of shorter arrays (Eigen assertion; out-of-bounds
// read with NDEBUG).  A = diag(1..10), nev = 6, default sizes, LargestAlge: the wanted eigenvalues are 10, 9, 8, 7, 6, 5.
// build: g++ -std=c++17 -O1 -I<tree>/include -I/usr/include/eigen3 F18_demo.cpp -o F18_demo ; exit 0 = repaired, 1 = defect
#include <stdexcept>
#define eigen_assert(x) do { if (!(x)) throw std::runtime_error(#x); } while (0)
#include <Eigen/Core>
#include <Spectra/DavidsonSymEigsSolver.h>
#include <Spectra/MatOp/DenseSymMatProd.h>
#include <iostream>
#include <cmath>
int main()
{
    const int n = 10, nev = 6;
    Eigen::MatrixXd A = Eigen::MatrixXd::Zero(n, n);
    for (int i = 0; i < n; i++) A(i, i) = i + 1.0;
    Spectra::DenseSymMatProd<double> op(A);
    try
    {
        Spectra::DavidsonSymEigsSolver<Spectra::DenseSymMatProd<double>> solver(op, nev);
        Eigen::Index nconv = solver.compute(Spectra::SortRule::LargestAlge, 100, 1e-8);
        Eigen::VectorXd ev = solver.eigenvalues();
        Eigen::MatrixXd V = solver.eigenvectors();
        std::cout << "info = " << (int) solver.info() << ", compute() = " << nconv << ", eigenvalues = " << ev.transpose() << std::endl;
        if (solver.info() != Spectra::CompInfo::Successful || nconv != nev || ev.size() != nev || V.cols() != nev)
        {
            std::cout << "FAIL: expected Successful with " << nev << " pairs" << std::endl;
            return 1;
        }
        for (int k = 0; k < nev; k++)
            if (std::abs(ev[k] - (n - k)) > 1e-10) { std::cout << "FAIL: eigenvalue " << k << " = " << ev[k] << std::endl; return 1; }
    }
    catch (const std::exception& e)
    {
        std::cout << "FAIL: index past the end of the Ritz pairs: Eigen assertion `" << e.what() << "`" << std::endl;
        return 1;
    }
    std::cout << "OK" << std::endl;
    return 0;
}
