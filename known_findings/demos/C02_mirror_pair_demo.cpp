// GenEigsComplexShiftSolver cannot tell apart two eigenvalues lambda, lambda' of A that are mirror images of each other in the circle
// |z - Re sigma| = |Im sigma|, i.e. (lambda - Re sigma)(lambda' - Re sigma) = (Im sigma)^2: both have the same transformed value
//     nu = 0.5 * (1/(lambda - sigma) + 1/(lambda - conj(sigma))),
// so the operator Re[(A - sigma I)^-1] has a DOUBLE eigenvalue nu whose eigenspace is spanned by the two eigenvectors of A; the Krylov
// iteration converges to one (arbitrary) vector y of that plane, sort_ritzpair() attaches one of the two roots to it, and (lambda, y) is
// handed back as converged although y is not an eigenvector of A.  With integer data this is not exotic: eigenvalues 1..10, sigma = 4 + 2i:
// (5 - 4)(8 - 4) = 4 = 2^2.
#include <Eigen/Dense>
#include <Spectra/GenEigsComplexShiftSolver.h>
#include <Spectra/MatOp/DenseGenComplexShiftSolve.h>
#include <iostream>
#include <cmath>
using namespace Spectra;
using Matrix = Eigen::MatrixXd;
static int check(const Matrix& A, int nev, int ncv, double sr, double si, const char* name)
{
    DenseGenComplexShiftSolve<double> op(A);
    GenEigsComplexShiftSolver<DenseGenComplexShiftSolve<double>> eigs(op, nev, ncv, sr, si);
    eigs.init();
    const int nconv = static_cast<int>(eigs.compute(SortRule::LargestMagn, 1000, 1e-10));
    Eigen::VectorXcd ev = eigs.eigenvalues(); Eigen::MatrixXcd X = eigs.eigenvectors();
    int bad = 0;
    std::cout << name << ": sigma=" << sr << "+" << si << "i nev=" << nev << " ncv=" << ncv << " info=" << (eigs.info() == CompInfo::Successful ? "Successful" : "other") << " nconv=" << nconv << "\n";
    for (int i = 0; i < nconv; i++) { const double res = (A * X.col(i) - ev[i] * X.col(i)).norm(); const bool ok = res <= 1e-7 * A.norm();
        std::cout << "    lambda = " << ev[i] << "   ||A x - lambda x|| = " << res << (ok ? "" : "   <-- not an eigenpair") << "\n"; if (!ok) bad++; }
    return bad;
}
int main()
{
    const int n = 10; Matrix T = Matrix::Zero(n, n);
    for (int i = 0; i < n; i++) { T(i, i) = 0.5 * (i + 1.0); for (int j = i + 1; j < n; j++) T(i, j) = 0.5 * std::sin(1.0 + 3.0 * i + 7.0 * j); }
    int bad = 0;
    bad += check(T, 3, 8, 2.25, 1.0, "mirror pair 2.5 | 4 ?  ");
    bad += check(T, 4, 9, 2.0, 1.0, "mirror pair 2.5 | 4    ");
    bad += check(T, 5, 10, 2.0, 1.0, "mirror pair 2.5 | 4    ");
    bad += check(T, 2, 8, 2.75, 0.5, "mirror pair 3|3.5: (0.25)(0.75)!=0.25 ");
    bad += check(T, 2, 8, 2.75, 0.4330127018922193, "near mirror 3|3.5 tau=sqrt(3)/4");
    bad += check(T, 4, 9, 2.1, 1.0, "control, sigma = 2.1+1i");
    if (bad) { std::cout << "FAIL: " << bad << " pair(s) handed back as converged are not eigenpairs\n"; return 1; }
    std::cout << "OK\n"; return 0;
}
