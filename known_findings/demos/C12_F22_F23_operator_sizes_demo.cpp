// C12 findings F22 / F23 (unchanged tree): operator sizes that no constructor validates.
//   F22  SymGEigsSolver / SymGEigsShiftSolver(op, Bop, ...) never compare op.rows() with Bop.rows(): operators of different sizes are
//        accepted; (nev, ncv) are validated against Bop.rows() (Cholesky, RegularInverse) or op.rows() (ShiftInvert, Buckling, Cayley);
//        init()/compute() then read and write vectors of the other size (heap-buffer-overflow, or silent garbage).
//   F23  GenEigsSolver(op, ...) over DenseGenMatProd / SparseGenMatProd built from a NON-SQUARE matrix is accepted (the wrapper takes any
//        shape, the solver never compares op.rows() with op.cols()); perform_op reads cols() entries of vectors of length rows().
// Build:  g++ -std=c++17 -O1 -g -fsanitize=address -I/repo/include -I/usr/include/eigen3 C12_F22_F23_operator_sizes_demo.cpp -o demo
// Run:    ./demo            constructors only: prints ACCEPTED for every case (expected: std::invalid_argument)
//         ./demo f22        additionally init()+compute() on the mismatched pair  -> AddressSanitizer: heap-buffer-overflow (READ)
//         ./demo f23        additionally init()+compute() on the 4x7 operator     -> AddressSanitizer: heap-buffer-overflow (READ)
#include <Eigen/Core>
#include <Eigen/SparseCore>
#include <Spectra/SymGEigsSolver.h>
#include <Spectra/SymGEigsShiftSolver.h>
#include <Spectra/GenEigsSolver.h>
#include <Spectra/MatOp/DenseSymMatProd.h>
#include <Spectra/MatOp/DenseGenMatProd.h>
#include <Spectra/MatOp/DenseCholesky.h>
#include <Spectra/MatOp/SymShiftInvert.h>
#include <iostream>
#include <cstring>
using namespace Spectra;
typedef Eigen::MatrixXd Mat;
static Mat sym(int n) { Mat A = Mat::Zero(n, n); for (int i = 0; i < n; i++) { A(i, i) = 2.0 + i; if (i + 1 < n) A(i, i + 1) = A(i + 1, i) = 0.5; } return A; }
static Mat spd(int n) { Mat B = Mat::Identity(n, n) * 3.0; for (int i = 0; i + 1 < n; i++) B(i, i + 1) = B(i + 1, i) = 0.25; return B; }
int main(int argc, char** argv)
{
    const bool f22 = argc > 1 && !std::strcmp(argv[1], "f22"), f23 = argc > 1 && !std::strcmp(argv[1], "f23");
    const int na = 8, nb = 5;
    Mat A = sym(na), Bna = spd(na), B = spd(nb);
    try {
        DenseSymMatProd<double> op(A); DenseCholesky<double> Bop(B);
        SymGEigsSolver<DenseSymMatProd<double>, DenseCholesky<double>, GEigsMode::Cholesky> s(op, Bop, 2, 4);
        std::cout << "F22 SymGEigsSolver<Cholesky>: A 8x8, B 5x5, nev=2, ncv=4  ACCEPTED" << std::endl;
        if (f22) { s.init(); int k = (int) s.compute(SortRule::LargestAlge); std::cout << "  nconv=" << k << std::endl; }
    } catch (const std::invalid_argument& e) { std::cout << "F22 Cholesky: invalid_argument: " << e.what() << std::endl; }
    try {
        using SI = SymShiftInvert<double, Eigen::Dense, Eigen::Dense>;
        SI op(A, Bna); DenseSymMatProd<double> Bop(B);
        SymGEigsShiftSolver<SI, DenseSymMatProd<double>, GEigsMode::ShiftInvert> s(op, Bop, 2, 4, 0.37);
        std::cout << "F22 SymGEigsShiftSolver<ShiftInvert>: op 8x8, Bop 5x5, nev=2, ncv=4  ACCEPTED" << std::endl;
    } catch (const std::invalid_argument& e) { std::cout << "F22 ShiftInvert: invalid_argument: " << e.what() << std::endl; }
    try {
        Mat M = Mat::Random(4, 7); DenseGenMatProd<double> op(M);
        GenEigsSolver<DenseGenMatProd<double>> s(op, 1, 4);
        std::cout << "F23 GenEigsSolver<DenseGenMatProd>: 4x7 matrix, nev=1, ncv=4  ACCEPTED" << std::endl;
        if (f23) { s.init(); int k = (int) s.compute(SortRule::LargestMagn); std::cout << "  nconv=" << k << std::endl; }
    } catch (const std::invalid_argument& e) { std::cout << "F23: invalid_argument: " << e.what() << std::endl; }
    return 0;
}
