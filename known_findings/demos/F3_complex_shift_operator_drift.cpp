#include <Spectra/GenEigsComplexShiftSolver.h>
#include <Spectra/MatOp/DenseGenComplexShiftSolve.h>
#include <Eigen/Dense>
#include <iostream>
using namespace Spectra; using namespace Eigen;
int main(){
  std::srand(3); int n=12; MatrixXd A=MatrixXd::Random(n,n);
  DenseGenComplexShiftSolve<double> op(A);
  GenEigsComplexShiftSolver<DenseGenComplexShiftSolve<double>> e(op,3,9,0.3,0.4);
  VectorXd x=VectorXd::LinSpaced(n,1,2), y0(n), y1(n);
  op.perform_op(x.data(), y0.data());
  e.init(); int nc=e.compute(SortRule::LargestMagn,1000,1e-10);
  op.perform_op(x.data(), y1.data());
  double drift=(y1-y0).norm();
  VectorXcd ev1=e.eigenvalues();
  e.init(); int nc2=e.compute(SortRule::LargestMagn,1000,1e-10); VectorXcd ev2=e.eigenvalues(); MatrixXcd X=e.eigenvectors();
  double worst=0; for(int i=0;i<X.cols();i++) worst=std::max(worst,(A*X.col(i)-ev2[i]*X.col(i)).norm());
  std::cout<<"nconv="<<nc<<" operator drift after compute()="<<drift<<"; second init+compute on the same object: nconv="<<nc2<<" max residual="<<worst<<" ev1="<<ev1.transpose()<<" ev2="<<ev2.transpose()<<"\n";
  return (drift>1e-10 || worst>1e-6) ? 1 : 0;
}
