// F14: GenEigsComplexShiftSolver::sort_ritzpair treats a REAL transformed Ritz value nu as one half of a conjugate pair whenever
// the selected root of the quadratic has |Im| > eps, and then overwrites the NEXT slot with conj(lambda).
//   trigger 1: a real eigenvalue lambda with |lambda - Re sigma| = |Im sigma| (discriminant exactly 0, negative by rounding)
//   trigger 2: a real Ritz value that has not converged, with |nu| > 1 / (2 |Im sigma|), among the first nev
// g++ -std=c++17 -O1 -I<tree>/include -I/usr/include/eigen3 F14_demo.cpp && ./a.out     (exit 0 = every returned pair is an eigenpair)
#include <Spectra/GenEigsComplexShiftSolver.h>
#include <Spectra/MatOp/DenseGenComplexShiftSolve.h>
#include <Eigen/Dense>
#include <iostream>
using namespace Spectra; using namespace Eigen;
typedef GenEigsComplexShiftSolver<DenseGenComplexShiftSolve<double>> Solver;

static int report(const char* name, const MatrixXd& A, Solver& s, int nret) {
    VectorXcd ev = s.eigenvalues(); MatrixXcd X = s.eigenvectors(); VectorXcd ref = A.eigenvalues(); int bad = 0;
    std::cout << name << ": compute() = " << nret << ", info() = " << (s.info() == CompInfo::Successful ? "Successful" : "NotConverging") << "\n";
    for (int i = 0; i < X.cols(); i++) {
        double res = (A * X.col(i) - ev[i] * X.col(i)).norm(), dist = 1e300; for (int q = 0; q < ref.size(); q++) dist = std::min(dist, std::abs(ref[q] - ev[i]));
        bool dup = false; for (int j = 0; j < i; j++) if (std::abs(ev[i] - ev[j]) < 1e-6) dup = true;
        bool ok = res < 1e-4 && dist < 1e-4 && !dup; if (!ok) bad++;
        std::cout << "  lambda = " << ev[i] << "  ||A x - lambda x|| = " << res << "  distance to spectrum = " << dist << (dup ? "  DUPLICATE" : "") << (ok ? "" : "  <-- not an eigenpair") << "\n"; }
    return bad; }

int main() {
    std::cout.precision(10); int bad = 0;
    {   // trigger 1: upper triangular 8x8, eigenvalues 2, 4.25, 5, ..., 8.75; sigma = 2.25 + 0.25i, so |2 - 2.25| = 0.25 = Im sigma
        const int n = 8; MatrixXd A = MatrixXd::Zero(n, n);
        for (int i = 0; i < n; i++) { for (int j = i + 1; j < n; j++) A(i, j) = std::sin(1.0 + 3 * i + 7 * j); A(i, i) = 3.5 + 0.75 * i; } A(0, 0) = 2.0;
        DenseGenComplexShiftSolve<double> op(A); Solver s(op, 2, 6, 2.25, 0.25);
        s.init(); int nret = s.compute(SortRule::LargestMagn, 100, 1e-10);
        bad += report("trigger 1 (expected: 2 and 4.25)", A, s, nret); }
    {   // trigger 2: normal 8x8 with eigenvalues 1.5+-1.5i, -0.075+-2i, -0.37+-1.8i, -0.59, 0.81; sigma = 1.6 + 1.25i;
        // second compute() with SmallestImag stops with one real Ritz value not converged
        const int n = 8; MatrixXd M(n, n); for (int i = 0; i < n; i++) for (int j = 0; j < n; j++) M(i, j) = std::sin(5.0 + 3 * i + 7 * j * j);
        MatrixXd Q = HouseholderQR<MatrixXd>(M).householderQ(); MatrixXd D = MatrixXd::Zero(n, n);
        auto blk = [&](int p, double a, double b) { D(p, p) = a; D(p + 1, p + 1) = a; D(p, p + 1) = -b; D(p + 1, p) = b; };
        blk(0, 1.5, 1.5); blk(2, -0.075, 2.0); blk(4, -0.37, 1.8); D(6, 6) = -0.59; D(7, 7) = 0.81;
        MatrixXd A = Q * D * Q.transpose();
        DenseGenComplexShiftSolve<double> op(A); Solver s(op, 5, 7, 1.6, 1.25);
        s.init(); s.compute(SortRule::LargestMagn, 20, 1e-13); int nret = s.compute(SortRule::SmallestImag, 20, 1e-6);
        bad += report("trigger 2 (every pair flagged converged must be an eigenpair)", A, s, nret); }
    std::cout << (bad ? "FAIL: " : "OK: ") << bad << " returned pair(s) that are not eigenpairs\n";
    return bad ? 1 : 0; }
