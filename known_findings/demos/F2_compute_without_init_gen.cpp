#include <Spectra/GenEigsSolver.h>
#include <Eigen/Dense>
#include <iostream>
#include <random>
using namespace Spectra; using namespace Eigen;
int main(){
  std::mt19937_64 g(99); std::uniform_real_distribution<double> U(-1,1);
  long runs=0, bad=0, cnt=0;
  for(int it=0; it<5000 && bad<4; it++){
    int n = 8 + g()%20; int nev = 1 + g()%4; int ncv = nev + 3 + g()%5; if(ncv>n) ncv=n; if(nev>n-2) continue;
    MatrixXd A(n,n); for(int i=0;i<n;i++)for(int j=0;j<n;j++) A(i,j)=U(g);
    DenseGenMatProd<double> op(A); GenEigsSolver<DenseGenMatProd<double>> e(op,nev,ncv);
    e.init(); double an=A.norm();
    for(int c=0;c<3;c++){
      int maxit = g()%4; double tol = 1e-10;
      int nc = e.compute(SortRule::LargestMagn, maxit, tol); runs++;
      VectorXcd ev=e.eigenvalues(); MatrixXcd X=e.eigenvectors();
      if(nc!=ev.size() || nc!=X.cols() || (e.info()==CompInfo::Successful)!=(nc==nev)) cnt++;
      for(int i=0;i<X.cols();i++){ double r=(A*X.col(i)-ev[i]*X.col(i)).norm(); double lim = 10*tol*std::abs(ev[i]) + 1e-10*an;
        if(r>lim){ bad++; std::cout<<"BAD it="<<it<<" call="<<c<<" n="<<n<<" nev="<<nev<<" ncv="<<ncv<<" maxit="<<maxit<<" ev="<<ev[i]<<" resid="<<r<<"\n"; break; } }
    }
  }
  std::cout<<"runs="<<runs<<" bad="<<bad<<" countmismatch="<<cnt<<"\n";
}
