// F3b (C06): GenEigsComplexShiftSolver leaves the USER'S operator at its internal probe shift when the operator throws during the
// root-selection probe of sort_ritzpair (the restoring set_shift is skipped by the exception).
// g++ -std=c++17 -I/repo/include -I/usr/include/eigen3 C06_F3b_throw_in_probe.cpp && ./a.out   (exit 1 = defect present)
#include <Spectra/GenEigsComplexShiftSolver.h>
#include <Spectra/MatOp/DenseGenComplexShiftSolve.h>
#include <Eigen/Dense>
#include <iostream>
using namespace Spectra; using namespace Eigen;
struct Fault {};
struct Op : DenseGenComplexShiftSolve<double> {       // the library's own wrapper; throws at application number throw_at
  mutable long count = 0; long throw_at = -1;
  explicit Op(const MatrixXd& A) : DenseGenComplexShiftSolve<double>(A) {}
  void perform_op(const double* x, double* y) const { if (++count == throw_at) throw Fault(); DenseGenComplexShiftSolve<double>::perform_op(x, y); }
};
int main() {
  std::srand(3); int n = 12; MatrixXd A = MatrixXd::Random(n, n);
  Op op(A); GenEigsComplexShiftSolver<Op> e(op, 3, 9, 0.3, 0.4);
  VectorXd x = VectorXd::LinSpaced(n, 1, 2), y0(n), y1(n);
  op.perform_op(x.data(), y0.data());
  e.init(); op.count = 0; e.compute(SortRule::LargestMagn, 1000, 1e-10); long total = op.count;   // a clean run: count the applications
  VectorXcd ev_ref = e.eigenvalues();
  e.init(); op.count = 0; op.throw_at = total;        // the LAST application belongs to the probe
  bool threw = false; try { e.compute(SortRule::LargestMagn, 1000, 1e-10); } catch (const Fault&) { threw = true; }
  op.throw_at = -1;
  op.perform_op(x.data(), y1.data());
  double drift = (y1 - y0).norm();
  e.init(); e.compute(SortRule::LargestMagn, 1000, 1e-10); VectorXcd ev = e.eigenvalues();
  std::cout << "threw=" << threw << " operator drift after the throwing compute()=" << drift << "; later init+compute: " << ev.transpose() << " (clean run: " << ev_ref.transpose() << ")\n";
  return drift > 1e-10 ? 1 : 0;
}
