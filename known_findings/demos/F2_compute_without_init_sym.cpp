#include <Spectra/SymEigsSolver.h>
#include <Spectra/GenEigsSolver.h>
#include <Eigen/Dense>
#include <iostream>
#include <random>
using namespace Spectra; using namespace Eigen;
int main(){
  std::mt19937_64 g(777); std::uniform_real_distribution<double> U(-1,1);
  long runs=0, bad=0, cnt=0;
  for(int it=0; it<20000 && bad<6; it++){
    int n = 8 + g()%20; int nev = 1 + g()%4; int ncv = nev + 2 + g()%5; if(ncv>n) ncv=n;
    MatrixXd M(n,n); for(int i=0;i<n;i++)for(int j=0;j<n;j++) M(i,j)=U(g);
    MatrixXd A=M+M.transpose();
    DenseSymMatProd<double> op(A); SymEigsSolver<DenseSymMatProd<double>> e(op,nev,ncv);
    e.init();
    int ncomp = 2 + g()%2; double an=A.norm();
    for(int c=0;c<ncomp;c++){
      int maxit = g()%4; double tol = 1e-10;
      int nc = e.compute(SortRule::LargestMagn, maxit, tol); runs++;
      VectorXd ev=e.eigenvalues(); MatrixXd X=e.eigenvectors();
      if(nc!=ev.size() || nc!=X.cols() || (e.info()==CompInfo::Successful)!=(nc==nev)){ cnt++; if(cnt<4) std::cout<<"COUNT it="<<it<<" call="<<c<<" maxit="<<maxit<<" ret="<<nc<<" size="<<ev.size()<<" cols="<<X.cols()<<" info="<<(int)e.info()<<"\n"; }
      for(int i=0;i<X.cols();i++){ double r=(A*X.col(i)-ev[i]*X.col(i)).norm(); double lim = 10*tol*std::abs(ev[i]) + 1e-11*an;
        if(r>lim){ bad++; std::cout<<"BAD it="<<it<<" call="<<c<<" n="<<n<<" nev="<<nev<<" ncv="<<ncv<<" maxit="<<maxit<<" ev="<<ev[i]<<" resid="<<r<<"\n"; break; } }
    }
  }
  std::cout<<"runs="<<runs<<" bad="<<bad<<" countmismatch="<<cnt<<"\n";
}
