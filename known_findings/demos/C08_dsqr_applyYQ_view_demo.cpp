// DoubleShiftQR::apply_YQ(GenericMatrix Y) must compute Y*Q for every argument an Eigen::Ref<Matrix> accepts, including
// views whose outer stride differs from their row count (the top rows of a taller matrix, a block of a workspace, a Map
// with an outer stride).  exit 0 = all checks passed, 1 = failure.
#include <Eigen/Core>
#include <Spectra/LinAlg/DoubleShiftQR.h>
#include <iostream>
#include <limits>
using Matrix = Eigen::MatrixXd;
static int failures = 0;
static void report(const char* what, double err, double tol) {
    const bool ok = err <= tol; std::cout << "  " << what << ": max error = " << err << (ok ? "  ok" : "  FAILED") << "\n"; if (!ok) failures++;
}
int main() {
    const int n = 6;
    Matrix H = Matrix::Zero(n, n);
    for (int j = 0; j < n; j++) for (int i = 0; i <= std::min(j + 1, n - 1); i++) H(i, j) = std::sin(1.0 + 3 * i + 7 * j);
    const double s = 0.3, t = 0.7, tol = 100 * n * std::numeric_limits<double>::epsilon();
    Spectra::DoubleShiftQR<double> qr(H, s, t);
    Matrix Q = Matrix::Identity(n, n); qr.apply_YQ(Q);                     // whole matrix: Q itself
    report("Q orthogonal                ", (Q.transpose() * Q - Matrix::Identity(n, n)).cwiseAbs().maxCoeff(), tol);
    Matrix D; qr.matrix_QtHQ(D);
    report("matrix_QtHQ = Q'HQ          ", (D - Q.transpose() * H * Q).cwiseAbs().maxCoeff(), tol * 4);
    Matrix Big(9, n); for (int i = 0; i < 9; i++) for (int j = 0; j < n; j++) Big(i, j) = std::cos(2.0 + 5 * i + 11 * j);
    Matrix Y = Big.topRows(4); qr.apply_YQ(Y);                             // owning copy: reference result
    report("YQ, owning 4 x n matrix     ", (Y - Big.topRows(4) * Q).cwiseAbs().maxCoeff(), tol * 4);
    Matrix B = Big; qr.apply_YQ(B.topRows(4));                             // the same rows as a view (outer stride 9)
    report("YQ, top 4 rows of a 9 x n   ", (B.topRows(4) - Y).cwiseAbs().maxCoeff(), 0.0);
    report("rows 4..8 of the parent kept", (B.bottomRows(5) - Big.bottomRows(5)).cwiseAbs().maxCoeff(), 0.0);
    Matrix W = Matrix::Constant(n + 3, n + 3, 7.0); W.topLeftCorner(n, n).setIdentity();
    qr.apply_YQ(W.topLeftCorner(n, n));                                    // basis kept in a larger workspace
    report("I*Q in a workspace corner   ", (W.topLeftCorner(n, n) - Q).cwiseAbs().maxCoeff(), 0.0);
    report("workspace border kept       ", (W.bottomRows(3).array() - 7.0).abs().maxCoeff() + (W.rightCols(3).array() - 7.0).abs().maxCoeff(), 0.0);
    std::vector<double> buf(11 * n, -5.0);
    Eigen::Map<Matrix, 0, Eigen::OuterStride<>> M(buf.data(), 4, n, Eigen::OuterStride<>(11));
    M = Big.topRows(4); qr.apply_YQ(M);
    report("YQ, Map with outer stride 11", (M - Y).cwiseAbs().maxCoeff(), 0.0);
    std::cout << (failures ? "FAILED checks: " : "all checks passed ") << failures << "\n";
    return failures ? 1 : 0;
}
