// F19: SparseGenRealShiftSolve / SparseGenComplexShiftSolve with Flags = Eigen::RowMajor
// on a nonsymmetric matrix: y must equal (Re of) inv(A - sigma I) x.
// A = 6x6 with diag 1..6, first row A(0,j) = 2 (j >= 1), last column A(i,5) = -1 (1 <= i <= 4), A(3,1) = 3.
#include <Eigen/Dense>
#include <Eigen/Sparse>
#include <Spectra/MatOp/SparseGenRealShiftSolve.h>
#include <Spectra/MatOp/SparseGenComplexShiftSolve.h>
#include <complex>
#include <cstdio>
int main()
{
    const int n = 6;
    Eigen::SparseMatrix<double, Eigen::RowMajor> A(n, n);
    Eigen::MatrixXd Ad = Eigen::MatrixXd::Zero(n, n);
    for (int i = 0; i < n; i++)
    {
        A.insert(i, i) = Ad(i, i) = i + 1.0;
        if (i >= 1)
            A.insert(0, i) = Ad(0, i) = 2.0;
        if (i >= 1 && i + 1 < n)
            A.insert(i, n - 1) = Ad(i, n - 1) = -1.0;
    }
    A.insert(3, 1) = Ad(3, 1) = 3.0;
    A.makeCompressed();
    Eigen::VectorXd x(n), y(n);
    for (int i = 0; i < n; i++)
        x[i] = 1.0 + 0.5 * i;
    int bad = 0;

    Spectra::SparseGenRealShiftSolve<double, Eigen::RowMajor> opr(A);
    opr.set_shift(0.5);
    opr.perform_op(x.data(), y.data());
    Eigen::MatrixXd Mr = Ad - 0.5 * Eigen::MatrixXd::Identity(n, n);
    Eigen::VectorXd yr = Mr.partialPivLu().solve(x);
    double err = (y - yr).norm() / yr.norm();
    std::printf("real shift 0.5       : |y - inv(A-sI)x|/|.| = %.3e", err);
    if (err > 1e-10)
    {
        bad++;
        std::printf("  FAIL");
    }
    std::printf("\n");

    Spectra::SparseGenComplexShiftSolve<double, Eigen::RowMajor> opc(A);
    opc.set_shift(0.5, 0.7);
    opc.perform_op(x.data(), y.data());
    Eigen::MatrixXcd Mc = Ad.cast<std::complex<double>>() - std::complex<double>(0.5, 0.7) * Eigen::MatrixXcd::Identity(n, n);
    Eigen::VectorXd yc = Mc.partialPivLu().solve(x.cast<std::complex<double>>()).real();
    err = (y - yc).norm() / yc.norm();
    std::printf("complex shift 0.5+0.7i: |y - Re inv(A-sI)x|/|.| = %.3e", err);
    if (err > 1e-10)
    {
        bad++;
        std::printf("  FAIL");
    }
    std::printf("\n");
    if (bad)
        return 1;
    std::printf("OK\n");
    return 0;
}
