// stale info: a compute() that exhausts its iterations without convergence must not report Success, whatever happened before.
// deterministic test problem (no external state)
#include <Eigen/Core>
#include <Eigen/SparseCore>
#include <Eigen/Eigenvalues>
#include <Spectra/contrib/LOBPCGSolver.h>
#include <iostream>
typedef Eigen::MatrixXd Mat;
typedef Eigen::SparseMatrix<double> SpMat;
struct Lcg { unsigned long s; double next() { s = s * 6364136223846793005UL + 1442695040888963407UL; return ((s >> 11) * (1.0 / 9007199254740992.0)) * 2 - 1; } };
// A = tridiagonal, diag 1..n (+ small), off-diagonal 0.3*r; X0 dense random n x k
inline void problem(int n, int k, unsigned long seed, Mat& A, Mat& X0) {
    Lcg g{seed}; A = Mat::Zero(n, n);
    for (int i = 0; i < n; i++) { A(i, i) = 1.0 + i; if (i + 1 < n) A(i, i + 1) = A(i + 1, i) = 0.3 * g.next(); }
    X0 = Mat(n, k); for (int j = 0; j < k; j++) for (int i = 0; i < n; i++) X0(i, j) = g.next();
}
int main() {
    const int n = 40, k = 3; Mat A, X0; problem(n, k, 11, A, X0);
    SpMat As = A.sparseView(), Xs = X0.sparseView();
    Spectra::LOBPCGSolver<double> s(As, Xs);
    s.compute(n, 1e-6);
    std::cout << "first  compute(40, 1e-6): info = " << s.info() << "\n";
    if (s.info() != 0) { std::cout << "demo problem did not converge\n"; return 2; }
    s.compute(1, 1e-14);   // one iteration, unreachable tolerance
    double worst = Mat(s.residuals()).colwise().norm().maxCoeff();
    std::cout << "second compute(1, 1e-14): info = " << s.info() << ", largest residual column norm = " << worst << ", threshold tol*n = " << 1e-14 * n << "\n";
    if (s.info() == 0 && !(worst < 1e-14 * n)) { std::cout << "FAIL: info() = Success although the residuals are above the threshold (m_info is stale)\n"; return 1; }
    std::cout << "OK\n"; return 0;
}
