// F11: DavidsonSymEigsSolver returns NaN when a Ritz value equals a diagonal entry (0/0 in the DPR correction).
// 6x6 symmetric matrix a_ii = i+1, a_ij = 0.1/(1+|i-j|), nev = 1, initial search space of ONE column (nvec_init = 1,
// nvec_max = 6), LargestAlge: the initial space is e_5, its Ritz value is exactly a_55 = 6 and the residue has a zero
// in row 5, so the unrepaired correction has the entry 0/0 = NaN and compute() returns NaN with info = NumericalIssue.
// build: g++ -std=c++17 -O1 -I<tree>/include -I/usr/include/eigen3 F11_demo.cpp -o F11_demo ; exit 0 = repaired, 1 = defect
#include <Eigen/Core>
#include <Spectra/DavidsonSymEigsSolver.h>
#include <Spectra/MatOp/DenseSymMatProd.h>
#include <iostream>
#include <cmath>
int main()
{
    const int n = 6;
    Eigen::MatrixXd A(n, n);
    for (int i = 0; i < n; i++)
        for (int j = 0; j < n; j++)
            A(i, j) = (i == j) ? i + 1.0 : 0.1 / (1.0 + std::abs(i - j));
    Spectra::DenseSymMatProd<double> op(A);
    Spectra::DavidsonSymEigsSolver<Spectra::DenseSymMatProd<double>> solver(op, 1, 1, 6);
    const double tol = 1e-8;
    Eigen::Index nconv = solver.compute(Spectra::SortRule::LargestAlge, 100, tol);
    Eigen::VectorXd ev = solver.eigenvalues();
    Eigen::MatrixXd V = solver.eigenvectors();
    std::cout << "info = " << (int) solver.info() << ", compute() = " << nconv << ", iterations = " << solver.num_iterations()
              << ", eigenvalues = " << ev.transpose() << std::endl;
    if (!ev.allFinite() || !V.allFinite())
    {
        std::cout << "FAIL: non-finite eigenvalues/eigenvectors returned (0/0 in calculate_correction_vector)" << std::endl;
        return 1;
    }
    if (solver.info() != Spectra::CompInfo::Successful || nconv != 1)
    {
        std::cout << "FAIL: not converged" << std::endl;
        return 1;
    }
    for (int k = 0; k < 1; k++)
    {
        double r = (A * V.col(k) - ev[k] * V.col(k)).norm();
        if (!(r < 10 * tol)) { std::cout << "FAIL: residual " << r << std::endl; return 1; }
    }
    if (!(ev[0] > 6.0 && ev[0] < 6.1)) { std::cout << "FAIL: largest eigenvalue is about 6.02, got " << ev[0] << std::endl; return 1; }
    std::cout << "OK" << std::endl;
    return 0;
}
