// inner ncv: compute() must not throw for valid input (5k < n, full-rank X0): k = 1, k = 10, and "one column left in iteration 0".
// deterministic test problem (no external state)
#include <Eigen/Core>
#include <Eigen/SparseCore>
#include <Eigen/Eigenvalues>
#include <Spectra/contrib/LOBPCGSolver.h>
#include <iostream>
typedef Eigen::MatrixXd Mat;
typedef Eigen::SparseMatrix<double> SpMat;
struct Lcg { unsigned long s; double next() { s = s * 6364136223846793005UL + 1442695040888963407UL; return ((s >> 11) * (1.0 / 9007199254740992.0)) * 2 - 1; } };
// A = tridiagonal, diag 1..n (+ small), off-diagonal 0.3*r; X0 dense random n x k
inline void problem(int n, int k, unsigned long seed, Mat& A, Mat& X0) {
    Lcg g{seed}; A = Mat::Zero(n, n);
    for (int i = 0; i < n; i++) { A(i, i) = 1.0 + i; if (i + 1 < n) A(i, i + 1) = A(i + 1, i) = 0.3 * g.next(); }
    X0 = Mat(n, k); for (int j = 0; j < k; j++) for (int i = 0; i < n; i++) X0(i, j) = g.next();
}
static int run(int n, int k, double tol, const char* what, bool need_success) {
    Mat A, X0; problem(n, k, 3, A, X0);
    if (tol < 0) {   // place the threshold between the two largest initial residual norms: exactly one unconverged column in iteration 0
        SpMat As = A.sparseView(), Xs = X0.sparseView(); Spectra::LOBPCGSolver<double> p(As, Xs); p.compute(0, 0.0);
        Eigen::VectorXd nr = Mat(p.residuals()).colwise().norm().transpose(); std::sort(nr.data(), nr.data() + nr.size());
        tol = 0.5 * (nr(k - 1) + nr(k - 2)) / n;
    }
    SpMat As = A.sparseView(), Xs = X0.sparseView();
    Spectra::LOBPCGSolver<double> s(As, Xs);
    try { s.compute(n, tol); }
    catch (std::exception& e) { std::cout << what << " (n=" << n << ", k=" << k << "): FAIL: compute() threw: " << e.what() << "\n"; return 1; }
    Eigen::SelfAdjointEigenSolver<Mat> ref(A);
    double err = (s.info() == 0 && need_success) ? (s.eigenvalues() - ref.eigenvalues().head(k)).cwiseAbs().maxCoeff() : -1;
    std::cout << what << " (n=" << n << ", k=" << k << "): info = " << s.info() << (err >= 0 ? ", max eigenvalue error " : ""); if (err >= 0) std::cout << err; std::cout << "\n";
    if (need_success && !(s.info() == 0 && err < 1e-4)) { std::cout << "FAIL: not solved\n"; return 1; }
    return 0;
}
int main() {
    int rc = 0;
    rc |= run(40, 1, 1e-6, "k = 1", true);
    rc |= run(60, 10, 1e-6, "k = 10", true);
    rc |= run(60, 12, 1e-6, "k = 12", true);
    rc |= run(20, 3, -1, "one column left in iteration 0, k = 3", false);
    rc |= run(14, 2, -1, "one column left in iteration 0, k = 2", false);
    std::cout << (rc ? "FAILED\n" : "OK\n"); return rc;
}
