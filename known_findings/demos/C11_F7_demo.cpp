// F7: SparseRegularInverse<double, Eigen::Upper>::solve() must use the UPPER triangle of B.
// B = tridiag(1, 4, 1) (SPD, 8x8) with only the upper triangle stored; x = ones.
#include <Eigen/Dense>
#include <Eigen/Sparse>
#include <Spectra/Util/CompInfo.h>
#include <Spectra/MatOp/SparseRegularInverse.h>
#include <cstdio>
#include <stdexcept>
int main()
{
    const int n = 8;
    Eigen::SparseMatrix<double> Bup(n, n);
    Eigen::MatrixXd Bfull = Eigen::MatrixXd::Zero(n, n);
    for (int i = 0; i < n; i++)
    {
        Bup.insert(i, i) = 4.0;
        Bfull(i, i) = 4.0;
        if (i + 1 < n)
        {
            Bup.insert(i, i + 1) = 1.0;  // upper triangle only
            Bfull(i, i + 1) = Bfull(i + 1, i) = 1.0;
        }
    }
    Bup.makeCompressed();
    Eigen::VectorXd x = Eigen::VectorXd::Ones(n), y(n);
    try
    {
        Spectra::SparseRegularInverse<double, Eigen::Upper> op(Bup);
        op.solve(x.data(), y.data());
    }
    catch (const std::exception& e)
    {
        std::printf("FAIL: solve() threw: %s\n", e.what());
        return 1;
    }
    const double err = (Bfull * y - x).norm() / x.norm();
    std::printf("relative residual |B*y - x|/|x| = %.3e\n", err);
    if (err > 1e-8)
    {
        std::printf("FAIL: solve() did not invert B (it used the lower triangle, i.e. diag(B): y[0] = %.4f, expected %.4f)\n",
                    y[0], Bfull.ldlt().solve(x)[0]);
        return 1;
    }
    std::printf("OK\n");
    return 0;
}
