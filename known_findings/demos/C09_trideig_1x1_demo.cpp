// Demo: TridiagEigen on a 1x1 matrix.   g++ -std=c++17 -I<repo>/include -I/usr/include/eigen3 demo_trideig_1x1.cpp -o demo && ./demo
// unchanged tree: Eigen assertion "you are using an empty matrix" (Redux.h), with -DNDEBUG an out-of-bounds read (ASan: heap-buffer-overflow)
#include <Eigen/Core>
#include <Spectra/LinAlg/TridiagEigen.h>
#include <iostream>
int main() {
    Eigen::MatrixXd A(1, 1); A(0, 0) = 3.0;
    Spectra::TridiagEigen<double> e; e.compute(A);
    std::cout << "eigenvalue " << e.eigenvalues()[0] << " eigenvector " << e.eigenvectors()(0, 0) << "\n";
    Eigen::MatrixXd Z(1, 1); Z(0, 0) = 0.0; e.compute(Z);
    std::cout << "zero 1x1: eigenvalue " << e.eigenvalues()[0] << " eigenvector " << e.eigenvectors()(0, 0) << "\n";
    return e.eigenvectors()(0, 0) == 1.0 ? 0 : 1;
}
