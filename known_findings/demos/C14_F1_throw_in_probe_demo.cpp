// C14-F1 demo: a user operator that fails during one of GenEigsComplexShiftSolver's probing solves (sort_ritzpair) must not be
// left at the solver's probing shift, and a new init(); compute() on the same solver must give the fault-free results.
//   g++ -std=c++17 -O1 -I<tree>/include -I/usr/include/eigen3 F1_demo.cpp -o F1_demo && ./F1_demo     (exit 0 = contained)
#include <Eigen/Core>
#include <Eigen/LU>
#include <Spectra/GenEigsComplexShiftSolver.h>
#include <complex>
#include <cstdio>
#include <cstring>
#include <stdexcept>
typedef std::complex<double> CD;
struct UserFault : std::exception { long k; explicit UserFault(long k_) : k(k_) {} };
// y = Re[(A - (sr + i si) I)^{-1} x]; the k-th application since reset() throws UserFault(k)
struct Op {
    using Scalar = double; Eigen::MatrixXd A, R; double sr = 0, si = 0; mutable long count = 0; long throw_at = -1;
    explicit Op(const Eigen::MatrixXd& a) : A(a) {}
    Eigen::Index rows() const { return A.rows(); } Eigen::Index cols() const { return A.cols(); }
    void set_shift(const double& r, const double& i) { sr = r; si = i; Eigen::MatrixXcd M = A.cast<CD>(); for (long k = 0; k < M.rows(); k++) M(k, k) -= CD(r, i); R = M.partialPivLu().inverse().real(); }
    void perform_op(const double* x, double* y) const { if (++count == throw_at) throw UserFault(count);
        Eigen::Map<const Eigen::VectorXd> xv(x, rows()); Eigen::Map<Eigen::VectorXd> yv(y, rows()); yv.noalias() = R * xv; }
};
int main() {
    const int n = 6, nev = 1, ncv = 6; const double sr = 0.3, si = 0.5;
    Eigen::MatrixXd A(n, n); for (int i = 0; i < n; i++) for (int j = 0; j < n; j++) A(i, j) = std::sin(1.0 + 3 * i + 7 * j) + (i == j ? 2.0 + i : 0.0);
    Eigen::VectorXd v0(n); for (int i = 0; i < n; i++) v0[i] = std::cos(0.7 * i + 0.2);
    // fault-free baseline
    Op op0(A); Spectra::GenEigsComplexShiftSolver<Op> s0(op0, nev, ncv, sr, si);
    s0.init(v0.data()); long r0 = s0.compute(Spectra::SortRule::LargestMagn, 30, 1e-10); Eigen::VectorXcd e0 = s0.eigenvalues(); const long K = op0.count;
    std::printf("baseline: %ld converged, %ld operator applications, lambda = %.15g%+.15gi\n", r0, K, r0 ? e0[0].real() : 0.0, r0 ? e0[0].imag() : 0.0);
    int bad = 0;
    for (long k = K - 2 * nev + 1; k <= K; k++) {      // the probing solves are the last 2*nev applications
        Op op(A); Spectra::GenEigsComplexShiftSolver<Op> s(op, nev, ncv, sr, si);
        op.count = 0; op.throw_at = k; bool caught = false;
        try { s.init(v0.data()); s.compute(Spectra::SortRule::LargestMagn, 30, 1e-10); } catch (const UserFault& f) { caught = (f.k == k); }
        const double fr = op.sr, fi = op.si; const bool shift_ok = (fr == sr && fi == si);
        op.count = 0; op.throw_at = -1;
        s.init(v0.data()); long r = s.compute(Spectra::SortRule::LargestMagn, 30, 1e-10); Eigen::VectorXcd e = s.eigenvalues();
        const bool same = (r == r0) && e.size() == e0.size() && (e.size() == 0 || std::memcmp(e.data(), e0.data(), sizeof(CD) * e.size()) == 0);
        std::printf("fault at application %ld: exception propagated = %d, operator shift after the fault = (%g, %g) %s, recovery %s (%ld converged, lambda = %.15g%+.15gi)\n",
                    k, (int) caught, fr, fi, shift_ok ? "[constructor shift]" : "[PROBING shift left behind]", same ? "bit-identical to baseline" : "DIFFERS from baseline", r, r ? e[0].real() : 0.0, r ? e[0].imag() : 0.0);
        if (!caught || !shift_ok || !same) bad++;
    }
    std::printf(bad ? "FAIL: %d fault position(s) not contained\n" : "OK: all probing-solve faults contained\n", bad);
    return bad ? 1 : 0;
}
