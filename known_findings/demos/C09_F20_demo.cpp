// F20: 2x2 matrix with a numerically double real eigenvalue; the Schur step leaves the block unsplit (p*p + b*c < 0 by a rounding hair)
// but the scaled discriminant recomputed in UpperHessenbergEigen::compute() is exactly 0.  Unchanged library: both eigenvalues are
// reported real and eigenvector 0 has residual 1.33.  Exit 0 iff every returned pair satisfies ||H x - lambda x|| <= 1e-12, ||x|| = 1,
// and complex values come as adjacent exact conjugates with the positive imaginary part first.
#include <Eigen/Core>
#include <iostream>
#include <cmath>
#include <Spectra/LinAlg/UpperHessenbergEigen.h>
int main() {
    Eigen::MatrixXd H(2, 2);
    H << 1.3662341026846208, 0.88328009893432191,
        -0.9613368080308986, -0.47673054256144276;
    Spectra::UpperHessenbergEigen<double> eig(H);
    Eigen::VectorXcd ev = eig.eigenvalues(); Eigen::MatrixXcd V = eig.eigenvectors();
    std::cout.precision(17);
    int rc = 0;
    for (int j = 0; j < 2; j++) {
        double res = (H.cast<std::complex<double>>() * V.col(j) - ev[j] * V.col(j)).norm(), nrm = V.col(j).norm();
        std::cout << "lambda" << j << " = " << ev[j] << "  ||x|| = " << nrm << "  ||H x - lambda x|| = " << res << "\n";
        if (!(res <= 1e-12) || !(std::fabs(nrm - 1.0) <= 1e-12)) { std::cout << "FAIL: pair " << j << " is not an eigenpair\n"; rc = 1; }
    }
    if (ev[0].imag() != 0.0 || ev[1].imag() != 0.0) {
        if (!(ev[0].imag() > 0.0 && ev[1] == std::conj(ev[0]))) { std::cout << "FAIL: complex values are not an exact conjugate pair with positive imaginary part first\n"; rc = 1; }
    }
    if (rc == 0) std::cout << "ok\n";
    return rc;
}
