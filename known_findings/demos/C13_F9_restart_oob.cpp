// F9: GenEigsBase::restart reads m_ritz_val[ncv] (one past the end) when the last unwanted Ritz value is complex and its conjugate
// partner is not the next element (duplicated conjugate pairs move the restart size k into the middle of a pair)
#include <stdexcept>
#define eigen_assert(x) do { if (!(x)) throw std::runtime_error("Eigen assertion failed: " #x); } while (0)
#include <Eigen/Dense>
#include <Spectra/GenEigsSolver.h>
#include <Spectra/MatOp/DenseGenMatProd.h>
#include <iostream>
using namespace Spectra; using namespace Eigen;
int main() {
    const int nb = 4, n = 2 * nb; MatrixXd A = MatrixXd::Zero(n, n); const double th = 0.9, sc = 1.0;
    for (int b = 0; b < nb; b++) { A(2*b, 2*b) = sc * std::cos(th); A(2*b, 2*b+1) = -sc * std::sin(th); A(2*b+1, 2*b) = sc * std::sin(th); A(2*b+1, 2*b+1) = sc * std::cos(th); }
    DenseGenMatProd<double> op(A); GenEigsSolver<DenseGenMatProd<double>> e(op, 1, 5);
    try { e.init(); int nc = e.compute(SortRule::SmallestMagn, 30, 1e-4); std::cout << "OK nconv=" << nc << " info=" << (int) e.info() << "\n"; return 0; }
    catch (const std::exception& ex) { std::cout << "FAIL: " << ex.what() << "\n"; return 1; }
}
