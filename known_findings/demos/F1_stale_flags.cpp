#include <Spectra/SymEigsSolver.h>
#include <Eigen/Dense>
#include <iostream>
#include <random>
using namespace Spectra; using namespace Eigen;
int main(){
  std::mt19937_64 g(12345); std::uniform_real_distribution<double> U(-1,1);
  long runs=0, partial=0, bad=0; 
  for(int it=0; it<200000 && bad<5; it++){
    int n = 8 + g()%20; int nev = 1 + g()%4; int ncv = nev + 1 + g()%5; if(ncv>n) ncv=n; if(nev>=ncv) continue;
    VectorXd d(n); for(int i=0;i<n;i++) d[i]=U(g);
    // +- pairs and near ties at the top
    int kind = g()%4;
    if(kind==0){ d[0]=10; d[1]=-10; d[2]=9.999; d[3]=-9.999; }
    else if(kind==1){ d[0]=10; d[1]=-10-1e-6; d[2]=5; d[3]=-5.000001; }
    else if(kind==2){ for(int i=0;i<n;i++) d[i]= (i%2? -1:1)*(1+ (i/2)*0.5 + 1e-7*U(g)); }
    else { d[0]=3; d[1]=3-1e-5; d[2]=-3+2e-5; }
    MatrixXd M(n,n); for(int i=0;i<n;i++)for(int j=0;j<n;j++) M(i,j)=U(g);
    HouseholderQR<MatrixXd> qr(M); MatrixXd Q=qr.householderQ(); MatrixXd A=Q*d.asDiagonal()*Q.transpose(); A=(0.5*(A+A.transpose())).eval();
    DenseSymMatProd<double> op(A); SymEigsSolver<DenseSymMatProd<double>> e(op,nev,ncv);
    int maxit = 1 + g()%8; double tol = std::pow(10.0, -3 - (int)(g()%8));
    SortRule rules[5]={SortRule::LargestMagn,SortRule::LargestAlge,SortRule::SmallestAlge,SortRule::BothEnds,SortRule::SmallestMagn};
    SortRule sel = rules[g()%5];
    e.init(); int nc = e.compute(sel, maxit, tol); runs++;
    if(e.info()==CompInfo::Successful || nc==0) continue; partial++;
    MatrixXd X=e.eigenvectors(); VectorXd ev=e.eigenvalues(); double an=A.norm();
    for(int i=0;i<X.cols();i++){ double r=(A*X.col(i)-ev[i]*X.col(i)).norm(); double lim = 10*tol*std::max(std::abs(ev[i]),3.7e-11) + 1e-11*an;
      if(r>lim){ bad++; std::cout<<"BAD it="<<it<<" n="<<n<<" nev="<<nev<<" ncv="<<ncv<<" maxit="<<maxit<<" tol="<<tol<<" sel="<<(int)sel<<" kind="<<kind<<" i="<<i<<" ev="<<ev[i]<<" resid="<<r<<" lim="<<lim<<"\n"; break; } }
  }
  std::cout<<"runs="<<runs<<" partial="<<partial<<" bad="<<bad<<"\n";
}
