// F15: UpperHessenbergEigen on the zero matrix.  Unchanged library: n = 5 throws "UpperHessenbergSchur: Schur decomposition failed",
// n = 2 returns NaN eigenvalues/eigenvectors.  Exit 0 iff both sizes return eigenvalues 0 and unit eigenvectors with H x = lambda x.
#include <Eigen/Core>
#include <iostream>
#include <cmath>
#include <Spectra/LinAlg/UpperHessenbergEigen.h>
static int check(int n) {
    Eigen::MatrixXd H = Eigen::MatrixXd::Zero(n, n);
    Spectra::UpperHessenbergEigen<double> eig;
    try { eig.compute(H); }
    catch (const std::exception& e) { std::cout << "FAIL n=" << n << ": zero matrix threw: " << e.what() << "\n"; return 1; }
    Eigen::VectorXcd ev = eig.eigenvalues(); Eigen::MatrixXcd V = eig.eigenvectors();
    for (int j = 0; j < n; j++) {
        if (!(ev[j].real() == 0.0 && ev[j].imag() == 0.0)) { std::cout << "FAIL n=" << n << ": eigenvalue " << j << " = " << ev[j] << " (expected 0)\n"; return 1; }
        double nrm = V.col(j).norm(), res = (H.cast<std::complex<double>>() * V.col(j) - ev[j] * V.col(j)).norm();
        if (!(std::fabs(nrm - 1.0) < 1e-14) || !(res < 1e-14)) { std::cout << "FAIL n=" << n << ": eigenvector " << j << " norm " << nrm << " residual " << res << "\n"; return 1; }
    }
    if (!((V.adjoint() * V - Eigen::MatrixXcd::Identity(n, n)).norm() < 1e-14)) { std::cout << "FAIL n=" << n << ": eigenvectors not orthonormal\n"; return 1; }
    std::cout << "ok n=" << n << "\n"; return 0;
}
int main() { int rc = 0; rc |= check(2); rc |= check(5); rc |= check(1); return rc; }
