// GenEigsComplexShiftSolver with a complex shift sigma whose REAL PART is an eigenvalue of A (a legal shift: Im sigma != 0,
// A - sigma I is regular).  The eigenvalue lambda0 = Re sigma has the transformed value
//     nu = 0.5 * (1 / (lambda0 - sigma) + 1 / (lambda0 - conj(sigma))) = 0,
// and sort_ritzpair() recovers lambda from nu as (sigmar + 0.5 / nu) -+ 0.5 * sqrt(1 - 4 nu^2 sigmai^2) / nu: for the computed
// nu ~ 1e-17 both parts are ~ 1e17 and their difference is rounding noise, so a pair that IS converged (its vector is the
// eigenvector of lambda0 to machine precision) is handed back with an arbitrary eigenvalue and info() == Successful.
// Every pair returned as converged must satisfy ||A x - lambda x|| <= small; the demo exits 1 otherwise.
#include <Eigen/Dense>
#include <Spectra/GenEigsComplexShiftSolver.h>
#include <Spectra/MatOp/DenseGenComplexShiftSolve.h>
#include <iostream>
#include <cmath>
using namespace Spectra;
using Matrix = Eigen::MatrixXd;

static int check(const Matrix& A, int nev, int ncv, double sr, double si, SortRule rule, const char* name)
{
    DenseGenComplexShiftSolve<double> op(A);
    GenEigsComplexShiftSolver<DenseGenComplexShiftSolve<double>> eigs(op, nev, ncv, sr, si);
    eigs.init();
    const int nconv = static_cast<int>(eigs.compute(rule, 1000, 1e-10));
    Eigen::VectorXcd ev = eigs.eigenvalues();
    Eigen::MatrixXcd X = eigs.eigenvectors();
    int bad = 0;
    std::cout << name << ": n=" << A.rows() << " nev=" << nev << " ncv=" << ncv << " sigma=" << sr << "+" << si << "i  info=" << (eigs.info() == CompInfo::Successful ? "Successful" : "other") << " nconv=" << nconv << "\n";
    for (int i = 0; i < nconv; i++)
    {
        const double res = (A * X.col(i) - ev[i] * X.col(i)).norm();
        const bool ok = res <= 1e-7 * A.norm();
        std::cout << "    lambda = " << ev[i] << "   ||A x - lambda x|| = " << res << (ok ? "" : "   <-- not an eigenpair") << "\n";
        if (!ok) bad++;
    }
    return bad;
}

int main()
{
    int bad = 0;
    for (int n : {8, 10, 12})
    {
        // upper triangular, eigenvalues 1, 2, ..., n
        Matrix T = Matrix::Zero(n, n);
        for (int i = 0; i < n; i++)
        {
            T(i, i) = i + 1.0;
            for (int j = i + 1; j < n; j++) T(i, j) = 0.5 * std::sin(1.0 + 3.0 * i + 7.0 * j);
        }
        // SmallestMagn on nu = the eigenvalues FARTHEST from sigma in the sense of the transformation; lambda0 = Re sigma (nu = 0) is the first of them
        bad += check(T, 2, 6, 1.0, 0.5, SortRule::SmallestMagn, "Re sigma = 1 = T(0,0)      ");
        bad += check(T, 2, n, 4.0, 0.5, SortRule::SmallestMagn, "Re sigma = 4, ncv = n      ");
        // control: generic shift, nothing at Re sigma
        bad += check(T, 2, 6, 1.3, 0.5, SortRule::SmallestMagn, "control sigma = 1.3 + 0.5i ");
    }
    if (bad) { std::cout << "FAIL: " << bad << " pair(s) handed back as converged are not eigenpairs\n"; return 1; }
    std::cout << "OK\n";
    return 0;
}
