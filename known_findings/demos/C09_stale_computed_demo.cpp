// Demo: a decomposition object that is REUSED hands back numbers after a compute() that threw.
//   g++ -std=c++17 -I<repo>/include -I/usr/include/eigen3 demo_stale_computed.cpp -o demo && ./demo     (exit 0 = behaves as documented, 1 = defect)
#include <Eigen/Core>
#include <Spectra/LinAlg/TridiagEigen.h>
#include <Spectra/LinAlg/UpperHessenbergSchur.h>
#include <Spectra/LinAlg/UpperHessenbergEigen.h>
#include <iostream>
#include <cmath>
#include <limits>
int main() {
    int bad = 0;
    // B: Day's matrix [0 1 0 0; 1 0 h 0; 0 -h 0 1; 0 0 1 0] scaled by 2^-8, next to a decoupled entry 1: finite, max|b_ij| = 1.
    // The Francis iteration does not converge on it within 40*n sweeps: compute() throws std::runtime_error (allowed).
    const double h = 1e-3, s = std::ldexp(1.0, -8);
    Eigen::MatrixXd B = Eigen::MatrixXd::Zero(5, 5);
    B(0, 1) = s; B(1, 0) = s; B(1, 2) = h * s; B(2, 1) = -h * s; B(2, 3) = s; B(3, 2) = s; B(4, 4) = 1.0;
    Eigen::MatrixXd A(3, 3); A << 2, 1, 0, 1, 3, 1, 0, 1, 4;

    {   // UpperHessenbergEigen: fresh object
        Spectra::UpperHessenbergEigen<double> e; bool threw = false;
        try { e.compute(B); } catch (const std::runtime_error& ex) { threw = true; std::cout << "fresh  UpperHessenbergEigen::compute(B) threw: " << ex.what() << "\n"; }
        try { e.eigenvalues(); std::cout << "  eigenvalues() returned\n"; bad |= threw; } catch (const std::logic_error& ex) { std::cout << "  eigenvalues() -> logic_error: " << ex.what() << "   (as documented)\n"; }
    }
    {   // UpperHessenbergEigen: reused object
        Spectra::UpperHessenbergEigen<double> e; e.compute(A); Eigen::VectorXcd evA = e.eigenvalues(); bool threw = false;
        try { e.compute(B); } catch (const std::runtime_error& ex) { threw = true; std::cout << "reused UpperHessenbergEigen: compute(A) ok, compute(B) threw: " << ex.what() << "\n"; }
        try { Eigen::VectorXcd ev = e.eigenvalues(); Eigen::MatrixXcd V = e.eigenvectors();
              std::cout << "  eigenvalues() returned " << ev.size() << " values for the 5x5 matrix B: " << ev.transpose() << "\n  identical to the eigenvalues of A: " << (ev.size() == evA.size() && ev == evA ? "yes" : "no") << ", eigenvectors() is " << V.rows() << "x" << V.cols() << "\n";
              if (threw) bad = 1; }
        catch (const std::logic_error& ex) { std::cout << "  eigenvalues() -> logic_error: " << ex.what() << "\n"; }
    }
    {   // UpperHessenbergSchur: reused object
        Spectra::UpperHessenbergSchur<double> sch; sch.compute(Eigen::MatrixXd::Identity(5, 5)); bool threw = false;
        try { sch.compute(B); } catch (const std::runtime_error& ex) { threw = true; std::cout << "reused UpperHessenbergSchur: compute(I) ok, compute(B) threw: " << ex.what() << "\n"; }
        try { Eigen::MatrixXd T = sch.matrix_T(), U = sch.matrix_U();
              std::cout << "  matrix_T() returned; sub-diagonal of T: " << T.diagonal(-1).transpose() << "  (two consecutive non-zeros: not a Schur form), max|U T U' - B| = " << (U * T * U.transpose() - B).cwiseAbs().maxCoeff() << "\n";
              if (threw) bad = 1; }
        catch (const std::logic_error& ex) { std::cout << "  matrix_T() -> logic_error: " << ex.what() << "\n"; }
    }
    {   // TridiagEigen: the iteration limit is only reachable with non-finite input
        Eigen::MatrixXd T0 = Eigen::MatrixXd::Zero(3, 3); T0.diagonal() << 1, 2, 3; T0(1, 0) = T0(0, 1) = 0.5; T0(2, 1) = T0(1, 2) = 0.25;
        Eigen::MatrixXd T1 = T0; T1(1, 1) = std::numeric_limits<double>::quiet_NaN();
        Spectra::TridiagEigen<double> e; e.compute(T0); bool threw = false;
        try { e.compute(T1); } catch (const std::runtime_error& ex) { threw = true; std::cout << "reused TridiagEigen: compute(T0) ok, compute(T1 with a NaN) threw: " << ex.what() << "\n"; }
        try { std::cout << "  eigenvalues() returned " << e.eigenvalues().transpose() << "\n"; if (threw) bad = 1; }
        catch (const std::logic_error& ex) { std::cout << "  eigenvalues() -> logic_error: " << ex.what() << "\n"; }
    }
    std::cout << (bad ? "DEFECT: accessors returned numbers after a failed compute()\n" : "OK\n");
    return bad;
}
