// F21: this translation unit does NOT COMPILE against the unchanged library (that is the defect);
// with the patch it compiles, and running it checks y = inv(A - sigma B) x, exit 0.
// SymShiftInvert<double, Sparse, Sparse, Lower, Upper, ColMajor, ColMajor, int, long>:
// A (StorageIndex int) = tridiag(-1, 2, -1) lower triangle, B (StorageIndex long) = tridiag(0.5, 3, 0.5) upper triangle.
#include <Eigen/Dense>
#include <Eigen/Sparse>
#include <Spectra/MatOp/SymShiftInvert.h>
#include <cstdio>
int main()
{
    const int n = 7;
    Eigen::SparseMatrix<double, Eigen::ColMajor, int> A(n, n);
    Eigen::SparseMatrix<double, Eigen::ColMajor, long> B(n, n);
    Eigen::MatrixXd Ad = Eigen::MatrixXd::Zero(n, n), Bd = Ad;
    for (int i = 0; i < n; i++)
    {
        A.insert(i, i) = Ad(i, i) = 2.0;
        B.insert(i, i) = Bd(i, i) = 3.0;
        if (i + 1 < n)
        {
            A.insert(i + 1, i) = -1.0;  // lower only
            Ad(i + 1, i) = Ad(i, i + 1) = -1.0;
            B.insert(i, i + 1) = 0.5;  // upper only
            Bd(i + 1, i) = Bd(i, i + 1) = 0.5;
        }
    }
    A.makeCompressed();
    B.makeCompressed();
    Spectra::SymShiftInvert<double, Eigen::Sparse, Eigen::Sparse, Eigen::Lower, Eigen::Upper,
                            Eigen::ColMajor, Eigen::ColMajor, int, long>
        op(A, B);
    const double sigma = 0.25;
    op.set_shift(sigma);
    Eigen::VectorXd x(n), y(n);
    for (int i = 0; i < n; i++)
        x[i] = 1.0 - 0.3 * i;
    op.perform_op(x.data(), y.data());
    Eigen::VectorXd ref = (Ad - sigma * Bd).partialPivLu().solve(x);
    const double err = (y - ref).norm() / ref.norm();
    std::printf("|y - inv(A - sigma B) x|/|.| = %.3e\n", err);
    if (err > 1e-10)
    {
        std::printf("FAIL\n");
        return 1;
    }
    std::printf("OK\n");
    return 0;
}
