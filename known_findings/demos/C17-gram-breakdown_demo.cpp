// C17-gram-breakdown demo: LOBPCGSolver must not report Success for a collapsed / blown-up block and must not throw on valid input.
//
// Problems (own LCG, fully deterministic): n = 60, sparse symmetric A = diag(1, 3, 5, ...) + couplings 0.3 u at distance 1 and
// 0.2 u at distance 7 (well separated smallest eigenvalues), optional SPD tridiagonal B, optional Jacobi preconditioner
// diag(A)^-1, dense random full-rank initial block, the documented default tolerance 1e-7, maxit = 60.
// Near convergence the conjugate directions D are rounding noise, the LDLT-based orthonormalisation no longer delivers D'BD = I
// (the Gram matrix of the Rayleigh-Ritz step assumes it) and the Gram matrix of [X R D] stops being positive definite.
// Unrepaired: the failed Cholesky factor is used anyway, X'BX drifts from I, the iterate blows up to 1e100 and then
//   - either collapses to zero columns (NaN is pruned by sparseView()), whose residual is 0: info() == Success with
//     eigenvalues() = (0, ..., 0) / (-3.3e-7, 1.7e-10, ...) and eigenvectors() with zero columns, or
//   - std::runtime_error("TridiagEigen: eigen decomposition failed") leaves compute().
// Repaired: info() == NumericalIssue for those inputs; every input that converged before gives bit-identical results.
//
// g++ -std=c++17 -O1 -I<tree>/include -I/usr/include/eigen3 C17-gram-breakdown_demo.cpp -o demo && ./demo   (exit 0 iff repaired)
#include <Eigen/Core>
#include <Eigen/SparseCore>
#include <Eigen/Eigenvalues>
#include <Spectra/contrib/LOBPCGSolver.h>
#include <iostream>
#include <cstdint>
#include <algorithm>

typedef double S;
typedef Eigen::Matrix<S, Eigen::Dynamic, Eigen::Dynamic> Mat;
typedef Eigen::Matrix<S, Eigen::Dynamic, 1> Vec;
typedef Eigen::SparseMatrix<S> SpMat;

static uint64_t st = 1;
static double urand()
{
    st = st * 6364136223846793005ULL + 1442695040888963407ULL;
    return double((st >> 11) & ((1ULL << 53) - 1)) / double(1ULL << 53) * 2.0 - 1.0;
}

// returns the number of violations of the success contract for this case; must_succeed: a well-behaved reference case
static int run(uint64_t seed, int k, bool withB, bool withT, double tol, bool must_succeed)
{
    const int n = 60, maxit = 60;
    st = seed;
    Mat a = Mat::Zero(n, n);
    for (int i = 0; i < n; i++)
    {
        a(i, i) = 2.0 * i + 1.0;
        if (i + 1 < n) { a(i, i + 1) = a(i + 1, i) = 0.3 * urand(); }
        if (i + 7 < n) { a(i, i + 7) = a(i + 7, i) = 0.2 * urand(); }
    }
    Mat b = Mat::Identity(n, n);
    if (withB)
        for (int i = 0; i < n; i++)
        {
            b(i, i) = 2.0 + 0.5 * urand();
            if (i + 1 < n) { b(i, i + 1) = b(i + 1, i) = 0.4; }
        }
    Mat x(n, k);
    for (int i = 0; i < n; i++)
        for (int j = 0; j < k; j++) x(i, j) = urand();
    SpMat A = a.sparseView(), B = b.sparseView(), X = x.sparseView();

    Spectra::LOBPCGSolver<S> solver(A, X);
    if (withB) solver.setB(B);
    if (withT)
    {
        SpMat T(n, n);
        for (int i = 0; i < n; i++) T.insert(i, i) = 1.0 / a(i, i);
        solver.setPreconditioner(T);
    }
    std::cout << "case seed=" << seed << " k=" << k << " B=" << withB << " T=" << withT << " tol=" << tol << ": ";
    try
    {
        solver.compute(maxit, tol);
    }
    catch (const std::exception& e)
    {
        std::cout << "\n  VIOLATION: compute() threw on valid input: " << e.what() << "\n";
        return 1;
    }
    std::cout << "info=" << solver.info();
    if (solver.info() != Eigen::Success)
    {
        std::cout << " (no success claimed)\n";
        if (must_succeed) { std::cout << "  VIOLATION: a well-behaved reference case no longer converges\n"; return 1; }
        return 0;
    }
    int bad = 0;
    Vec ev = solver.eigenvalues();
    Mat V = solver.eigenvectors();
    Mat R = solver.residuals();
    if (V.rows() != n || V.cols() != k || ev.size() != k || R.rows() != n || R.cols() != k)
    {
        std::cout << "\n  VIOLATION: wrong shapes\n";
        return 1;
    }
    Eigen::GeneralizedSelfAdjointEigenSolver<Mat> ref(a, b);
    Mat Rtrue = a * V - b * V * ev.asDiagonal();
    double everr = (ev - ref.eigenvalues().head(k)).cwiseAbs().maxCoeff();
    double ortho = (V.transpose() * b * V - Mat::Identity(k, k)).cwiseAbs().maxCoeff();
    double mincol = V.colwise().norm().minCoeff();
    std::cout << " everr=" << everr << " |X'BX-I|=" << ortho << " smallest column norm=" << mincol << "\n";
    if (!(everr < std::max(1e-6, 2.0 * tol * n))) { std::cout << "  VIOLATION: Success, but eigenvalues() = (" << ev.transpose() << ") are not the k smallest (" << ref.eigenvalues().head(k).transpose() << ")\n"; bad++; }
    if (!(ortho < 1e-6)) { std::cout << "  VIOLATION: Success, but X'BX != I (err " << ortho << ")\n"; bad++; }
    for (int j = 0; j < k; j++)
        if (!(Rtrue.col(j).norm() < tol * n)) { std::cout << "  VIOLATION: Success, but residual column " << j << " has norm " << Rtrue.col(j).norm() << "\n"; bad++; }
    return bad;
}

int main()
{
    int bad = 0;
    // the reported input and neighbours: Success with zero / 1e-9 columns
    bad += run(639, 6, true, true, 1e-7, false);
    bad += run(143, 6, false, true, 1e-7, false);
    bad += run(529, 5, true, true, 1e-7, false);
    bad += run(1497, 6, true, true, 1e-7, false);
    // no preconditioner
    bad += run(3338, 3, false, false, 1e-7, false);
    // exception out of compute()
    bad += run(823, 5, false, true, 1e-7, false);
    bad += run(875, 5, true, true, 1e-7, false);
    bad += run(1216, 6, false, false, 1e-7, false);
    // ordinary cases: must converge, exactly as before
    bad += run(1, 3, false, false, 1e-7, true);
    bad += run(2, 3, true, false, 1e-7, true);
    bad += run(3, 4, true, true, 1e-7, true);
    bad += run(640, 6, true, true, 1e-7, true);
    if (bad)
        std::cout << "FAIL: " << bad << " violation(s) of the LOBPCG success contract\n";
    else
        std::cout << "OK\n";
    return bad ? 1 : 0;
}
