// F10: LOBPCGSolver::eigenvectors() must be the n x k matrix X with A X = X diag(eigenvalues), X'X = I (B = I here).
// deterministic test problem (no external state)
#include <Eigen/Core>
#include <Eigen/SparseCore>
#include <Eigen/Eigenvalues>
#include <Spectra/contrib/LOBPCGSolver.h>
#include <iostream>
typedef Eigen::MatrixXd Mat;
typedef Eigen::SparseMatrix<double> SpMat;
struct Lcg { unsigned long s; double next() { s = s * 6364136223846793005UL + 1442695040888963407UL; return ((s >> 11) * (1.0 / 9007199254740992.0)) * 2 - 1; } };
// A = tridiagonal, diag 1..n (+ small), off-diagonal 0.3*r; X0 dense random n x k
inline void problem(int n, int k, unsigned long seed, Mat& A, Mat& X0) {
    Lcg g{seed}; A = Mat::Zero(n, n);
    for (int i = 0; i < n; i++) { A(i, i) = 1.0 + i; if (i + 1 < n) A(i, i + 1) = A(i + 1, i) = 0.3 * g.next(); }
    X0 = Mat(n, k); for (int j = 0; j < k; j++) for (int i = 0; i < n; i++) X0(i, j) = g.next();
}
int main() {
    const int n = 40, k = 3; Mat A, X0; problem(n, k, 11, A, X0);
    SpMat As = A.sparseView(), Xs = X0.sparseView();
    Spectra::LOBPCGSolver<double> s(As, Xs);
    s.compute(n, 1e-6);
    if (s.info() != 0) { std::cout << "F10 demo: solver did not converge (info " << s.info() << ")\n"; return 2; }
    Mat E = s.eigenvectors(); Eigen::VectorXd th = s.eigenvalues();
    std::cout << "eigenvectors() is " << E.rows() << " x " << E.cols() << " (n = " << n << ", k = " << k << ")\n";
    if (E.rows() != n || E.cols() != k) { std::cout << "FAIL: eigenvectors() is not n x k (it is the Ritz coefficient matrix of the last Rayleigh-Ritz step)\n"; return 1; }
    double r = (A * E - E * th.asDiagonal()).cwiseAbs().maxCoeff(), o = (E.transpose() * E - Mat::Identity(k, k)).cwiseAbs().maxCoeff();
    std::cout << "max|A E - E diag(theta)| = " << r << ", max|E'E - I| = " << o << "\n";
    if (!(r < 1e-6 * n && o < 1e-8)) { std::cout << "FAIL: eigenvectors() are not orthonormal eigenvectors\n"; return 1; }
    std::cout << "OK\n"; return 0;
}
