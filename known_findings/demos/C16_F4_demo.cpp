// F4: PartialSVDSolver::matrix_U()/matrix_V() must describe the MOST RECENT compute().
// Exits 0 if they do, 1 (with a message) if the factors of an earlier compute() are returned.
//   g++ -std=c++17 -O1 -I<spectra>/include -I/usr/include/eigen3 F4_demo.cpp -o F4_demo && ./F4_demo
#include <Eigen/Core>
#include <Spectra/contrib/PartialSVDSolver.h>
#include <cmath>
#include <iostream>

int main()
{
    const int m = 20, n = 15, ncomp = 3, ncv = 5;
    Eigen::MatrixXd A(m, n);
    unsigned long st = 12345;  // fixed pseudo-random entries in [-0.5, 0.5)
    for (int i = 0; i < m; i++)
        for (int j = 0; j < n; j++)
        {
            st = (st * 1103515245UL + 12345UL) % 2147483648UL;
            A(i, j) = (double) st / 2147483648.0 - 0.5;
        }

    // History on ONE solver object: a loose compute(), read V, then the default (accurate) compute(), read U and V again
    Spectra::PartialSVDSolver<Eigen::MatrixXd> svd(A, ncomp, ncv);
    const int nconv1 = (int) svd.compute(1000, 1e-2);
    Eigen::MatrixXd V1 = svd.matrix_V(ncomp);
    const int nconv2 = (int) svd.compute(1000, 1e-10);
    Eigen::VectorXd S = svd.singular_values();
    Eigen::MatrixXd U = svd.matrix_U(ncomp), V = svd.matrix_V(ncomp);

    // Reference: a fresh solver that only ever saw the second compute()
    Spectra::PartialSVDSolver<Eigen::MatrixXd> fresh(A, ncomp, ncv);
    fresh.compute(1000, 1e-10);
    Eigen::MatrixXd Uf = fresh.matrix_U(ncomp), Vf = fresh.matrix_V(ncomp);

    const double dV = (V.rows() == Vf.rows() && V.cols() == Vf.cols()) ? (V - Vf).cwiseAbs().maxCoeff() : 1.0;
    const double dU = (U.rows() == Uf.rows() && U.cols() == Uf.cols()) ? (U - Uf).cwiseAbs().maxCoeff() : 1.0;
    const double res = (A.transpose() * U - V * S.asDiagonal()).cwiseAbs().maxCoeff();
    std::cout << "converged: " << nconv1 << " (tol 1e-2), " << nconv2 << " (tol 1e-10)\n"
              << "max |V - V_fresh| = " << dV << ", max |U - U_fresh| = " << dU << ", max |A'U - V S| = " << res << "\n";
    if (dV != 0.0 || dU != 0.0 || !(res <= 1e-8))
    {
        std::cout << "FAIL: after the second compute() the factors are still those of the first compute() "
                     "(stale eigenvector cache): they differ from a fresh solver and do not satisfy A'U = V S to 1e-8\n";
        return 1;
    }
    // Second history (only reached when the first one is right): the first run converges 1 value, the second 3.
    // With the stale one-column cache, matrix_U(3) asked for leftCols(3) of it (Eigen assertion / out-of-bounds read).
    Spectra::PartialSVDSolver<Eigen::MatrixXd> svd2(A, ncomp, ncv);
    const int k1 = (int) svd2.compute(1, 1e-2);
    svd2.matrix_U(ncomp);
    const int k2 = (int) svd2.compute(1000, 1e-10);
    Eigen::MatrixXd U2 = svd2.matrix_U(ncomp);
    std::cout << "converged: " << k1 << " (maxit 1, tol 1e-2), " << k2 << " (tol 1e-10); matrix_U(3) has " << U2.cols() << " columns\n";
    if (U2.cols() != k2 || (U2 - Uf).cwiseAbs().maxCoeff() != 0.0)
    {
        std::cout << "FAIL: matrix_U(3) after the second compute() does not have its " << k2 << " columns\n";
        return 1;
    }
    std::cout << "OK: matrix_U/matrix_V describe the most recent compute()\n";
    return 0;
}
