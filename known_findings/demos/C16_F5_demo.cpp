// F5: singular values / factors of an exactly rank-deficient matrix must be finite and non-negative.
// Exits 0 if they are, 1 (with a message) if a NaN is returned.
//   g++ -std=c++17 -O1 -I<spectra>/include -I/usr/include/eigen3 F5_demo.cpp -o F5_demo && ./F5_demo
#include <Eigen/Core>
#include <Spectra/contrib/PartialSVDSolver.h>
#include <cmath>
#include <iostream>

template <class M> static bool all_finite(const M& x) { return x.size() == 0 || x.allFinite(); }

int main()
{
    int bad = 0, cases = 0;
    // integer matrices of rank 1..3 (A = B C with small integer B, C): as many values as the rank or more are requested
    for (int variant = 0; variant < 24; variant++)
    {
        const int m = 6 + variant % 5, n = 5 + variant % 3, rk = 1 + variant % 3, d = (m < n ? m : n);
        Eigen::MatrixXd B(m, rk), C(rk, n);
        for (int i = 0; i < m; i++) for (int k = 0; k < rk; k++) B(i, k) = (double) ((i * 7 + k * 3 + variant) % 5 - 2);
        for (int k = 0; k < rk; k++) for (int j = 0; j < n; j++) C(k, j) = (double) ((k * 5 + j * 2 + variant) % 5 - 2);
        Eigen::MatrixXd A = B * C;
        if (A.cwiseAbs().maxCoeff() == 0.0) continue;
        const int ncomp = d - 1, ncv = d;
        Spectra::PartialSVDSolver<Eigen::MatrixXd> svd(A, ncomp, ncv);
        const int nconv = (int) svd.compute(1000, 1e-10);
        Eigen::VectorXd S = svd.singular_values();
        Eigen::MatrixXd U = svd.matrix_U(ncomp), V = svd.matrix_V(ncomp);
        cases++;
        bool ok = all_finite(S) && all_finite(U) && all_finite(V) && (S.size() == 0 || S.minCoeff() >= 0.0);
        if (!ok)
        {
            bad++;
            if (bad <= 3) std::cout << "FAIL: " << m << "x" << n << " integer matrix of rank <= " << rk << ", ncomp=" << ncomp << ", ncv=" << ncv
                      << ", " << nconv << " converged: singular values = " << S.transpose()
                      << (all_finite(U) && all_finite(V) ? "" : " ; matrix_U/matrix_V contain non-finite entries") << "\n";
        }
    }
    if (bad)
    {
        std::cout << bad << " of " << cases << " rank-deficient inputs returned NaN (sqrt of a slightly negative eigenvalue of A'A / division by a zero singular value)\n";
        return 1;
    }
    std::cout << "OK: finite, non-negative singular values and finite factors on " << cases << " rank-deficient inputs\n";
    return 0;
}
