// F20: SparseGenComplexShiftSolve::set_shift must throw std::invalid_argument when
// A - sigma I is singular, as SparseGenRealShiftSolve::set_shift does.
// A = [[1,-2,0],[2,1,0],[0,0,5]] has the eigenvalue 1+2i; sigma = 1+2i.
#include <Eigen/Sparse>
#include <Spectra/MatOp/SparseGenRealShiftSolve.h>
#include <Spectra/MatOp/SparseGenComplexShiftSolve.h>
#include <cstdio>
#include <stdexcept>
int main()
{
    Eigen::SparseMatrix<double> A(3, 3);
    A.insert(0, 0) = 1.0;
    A.insert(0, 1) = -2.0;
    A.insert(1, 0) = 2.0;
    A.insert(1, 1) = 1.0;
    A.insert(2, 2) = 5.0;
    A.makeCompressed();
    // reference behaviour of the real-shift sibling: sigma = 5 is an eigenvalue
    bool real_throws = false;
    try
    {
        Spectra::SparseGenRealShiftSolve<double> opr(A);
        opr.set_shift(5.0);
    }
    catch (const std::invalid_argument&)
    {
        real_throws = true;
    }
    std::printf("SparseGenRealShiftSolve::set_shift(5)      : %s\n", real_throws ? "std::invalid_argument" : "no exception");
    bool cplx_throws = false;
    try
    {
        Spectra::SparseGenComplexShiftSolve<double> opc(A);
        opc.set_shift(1.0, 2.0);
    }
    catch (const std::invalid_argument&)
    {
        cplx_throws = true;
    }
    std::printf("SparseGenComplexShiftSolve::set_shift(1,2) : %s\n", cplx_throws ? "std::invalid_argument" : "no exception");
    if (!real_throws || !cplx_throws)
    {
        std::printf("FAIL: singular A - sigma I accepted without an exception\n");
        return 1;
    }
    // a regular shift must still be accepted
    Spectra::SparseGenComplexShiftSolve<double> ok(A);
    ok.set_shift(0.3, 0.4);
    std::printf("OK\n");
    return 0;
}
