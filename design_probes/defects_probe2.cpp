#include <Spectra/SymEigsSolver.h>
#include <Spectra/GenEigsSolver.h>
#include <Spectra/DavidsonSymEigsSolver.h>
#include <Spectra/contrib/PartialSVDSolver.h>
#include <Spectra/contrib/LOBPCGSolver.h>
#include <iostream>
#include <cstdlib>
using namespace Spectra; using namespace Eigen;
static long live=0;
void* operator new(size_t n){ live++; void* p=malloc(n); if(!p) throw std::bad_alloc(); return p;}
void operator delete(void* p) noexcept { if(p){live--; free(p);} }
void operator delete(void* p, size_t) noexcept { if(p){live--; free(p);} }
int main(){
  // F1: stale flags at maxit exhaustion
  { int bad=0, runs=0; for(int seed=0; seed<200; seed++){ std::srand(seed); int n=30; MatrixXd M=MatrixXd::Random(n,n); MatrixXd A=M+M.transpose();
      DenseSymMatProd<double> op(A); SymEigsSolver<DenseSymMatProd<double>> e(op,4,9); e.init();
      for(int maxit=1; maxit<=3; maxit++){ e.init(); int nc=e.compute(SortRule::LargestMagn,maxit,1e-10); if(e.info()==CompInfo::Successful||nc==0) continue; runs++;
        MatrixXd X=e.eigenvectors(); VectorXd ev=e.eigenvalues(); double w=0; for(int i=0;i<X.cols();i++) w=std::max(w,(A*X.col(i)-ev[i]*X.col(i)).norm());
        if(w>1e-7*A.norm()) bad++; } }
    std::cout<<"F1 partial-convergence runs="<<runs<<" with bad residual="<<bad<<"\n"; }
  // F9: orthogonal/permutation matrix in GenEigsSolver
  { int n=8; MatrixXd P=MatrixXd::Zero(n,n); for(int i=0;i<n;i++) P((i+1)%n,i)=1; DenseGenMatProd<double> op(P);
    try{ GenEigsSolver<DenseGenMatProd<double>> e(op,3,6); e.init(); int nc=e.compute(SortRule::LargestMagn,50,1e-10); std::cout<<"F9 perm matrix: nconv="<<nc<<" info="<<(int)e.info()<<"\n"; }
    catch(std::exception& ex){ std::cout<<"F9 perm matrix throws "<<ex.what()<<"\n"; } }
  // F5: rank-deficient SVD
  { std::srand(5); MatrixXd B=MatrixXd::Random(20,2); MatrixXd A=B*MatrixXd::Random(2,10); PartialSVDSolver<MatrixXd> s(A,4,8); int nc=s.compute(); std::cout<<"F5 rank-2 SVD nconv="<<nc<<" svals="<<s.singular_values().transpose()<<"\n"; }
  // F6: leak
  { std::srand(6); MatrixXd A=MatrixXd::Random(6,4); long before=live; try{ PartialSVDSolver<MatrixXd> s(A,4,9);}catch(std::exception& ex){ } std::cout<<"F6 live blocks leaked after rejected ctor="<<live-before<<"\n"; }
  // F11: Davidson NaN with decoupled coordinate
  { int n=20; std::srand(7); MatrixXd M=MatrixXd::Random(n,n); MatrixXd A=0.01*(M+M.transpose()); for(int i=0;i<n;i++) A(i,i)=i+1; A.row(n-1).setZero(); A.col(n-1).setZero(); A(n-1,n-1)=100;
    DenseSymMatProd<double> op(A); DavidsonSymEigsSolver<DenseSymMatProd<double>> e(op,2); int nc=e.compute(SortRule::LargestAlge); std::cout<<"F11 Davidson decoupled: nconv="<<nc<<" info="<<(int)e.info()<<" evals="<<e.eigenvalues().transpose()<<"\n"; }
  // F10: LOBPCG eigenvectors shape
  { int n=40,k=3; SparseMatrix<long double> A(n,n); for(int i=0;i<n;i++){A.insert(i,i)=i+1; if(i+1<n){A.insert(i,i+1)=0.1;A.insert(i+1,i)=0.1;}} A.makeCompressed();
    std::srand(8); Matrix<long double,Dynamic,Dynamic> X0=Matrix<long double,Dynamic,Dynamic>::Random(n,k); SparseMatrix<long double> X=X0.sparseView();
    LOBPCGSolver<long double> s(A,X); s.compute(50,1e-8); auto E=s.eigenvectors(); std::cout<<"F10 LOBPCG info="<<s.info()<<" eigenvectors shape="<<E.rows()<<"x"<<E.cols()<<" evals="<<s.eigenvalues().transpose().cast<double>()<<"\n"; }
}
