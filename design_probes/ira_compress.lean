import Mathlib.Data.Matrix.Mul
import Mathlib.Algebra.BigOperators.Intervals
import Mathlib.Algebra.Field.Basic
import Mathlib.Tactic.Ring
import Mathlib.Tactic.Linarith
import Mathlib.Tactic.Abel
import Mathlib.Algebra.Module.BigOperators

open Finset Matrix

variable {𝕜 : Type} [Field 𝕜] {n : ℕ}

theorem mulVec_fsum (A : Matrix (Fin n) (Fin n) 𝕜) (s : Finset ℕ) (c : ℕ → 𝕜) (v : ℕ → Fin n → 𝕜) :
    A *ᵥ (∑ a ∈ s, c a • v a) = ∑ a ∈ s, c a • (A *ᵥ v a) := by
  classical
  induction s using Finset.induction_on with
  | empty => simp
  | insert x s hx ih => rw [sum_insert hx, sum_insert hx, Matrix.mulVec_add, Matrix.mulVec_smul, ih]

def Kry (A : Matrix (Fin n) (Fin n) 𝕜) (V : ℕ → Fin n → 𝕜) (H : ℕ → ℕ → 𝕜) (f : Fin n → 𝕜) (k : ℕ) : Prop :=
  ∀ j, j < k → A *ᵥ V j = (∑ i ∈ range k, H i j • V i) + (if j + 1 = k then f else 0)

theorem ira_compress (A : Matrix (Fin n) (Fin n) 𝕜) (V : ℕ → Fin n → 𝕜) (H Hp Q : ℕ → ℕ → 𝕜)
    (f : Fin n → 𝕜) (m k : ℕ) (hk : 0 < k) (hkm : k < m)
    (hK : Kry A V H f m)
    (hHQ : ∀ i, i < m → ∀ j, j < m → ∑ a ∈ range m, H i a * Q a j = ∑ b ∈ range m, Q i b * Hp b j)
    (hHess : ∀ b j, j + 1 < b → Hp b j = 0)
    (hband : ∀ j, j + 1 < k → Q (m - 1) j = 0) :
    let Vp : ℕ → Fin n → 𝕜 := fun j => ∑ a ∈ range m, Q a j • V a
    let fp : Fin n → 𝕜 := Q (m - 1) (k - 1) • f + Hp k (k - 1) • Vp k
    Kry A Vp Hp fp k := by
  intro Vp fp j hj
  have hjm : j < m := lt_trans hj hkm
  -- A Vp_j = Σ_a Q a j • A V_a
  have h1 : A *ᵥ Vp j = ∑ a ∈ range m, Q a j • (A *ᵥ V a) := by
    simp only [Vp]; exact mulVec_fsum A _ _ _
  have h2 : ∑ a ∈ range m, Q a j • (A *ᵥ V a)
      = (∑ a ∈ range m, Q a j • ∑ i ∈ range m, H i a • V i) + Q (m - 1) j • f := by
    rw [sum_congr rfl (fun a ha => by rw [hK a (mem_range.mp ha)])]
    simp only [smul_add, sum_add_distrib]
    congr 1
    rw [sum_eq_single (m - 1)]
    · have : m - 1 + 1 = m := by omega
      simp [this]
    · intro b hb hne
      have : b + 1 ≠ m := by have := mem_range.mp hb; omega
      simp [this]
    · intro h; exfalso; apply h; rw [mem_range]; omega
  have h3 : ∑ a ∈ range m, Q a j • ∑ i ∈ range m, H i a • V i
      = ∑ b ∈ range m, Hp b j • Vp b := by
    calc ∑ a ∈ range m, Q a j • ∑ i ∈ range m, H i a • V i
        = ∑ i ∈ range m, (∑ a ∈ range m, H i a * Q a j) • V i := by
          simp only [smul_sum, smul_smul]
          rw [sum_comm]
          apply sum_congr rfl; intro i _
          rw [sum_smul]
          apply sum_congr rfl; intro a _
          rw [mul_comm]
      _ = ∑ i ∈ range m, (∑ b ∈ range m, Q i b * Hp b j) • V i := by
          apply sum_congr rfl; intro i hi
          rw [hHQ i (mem_range.mp hi) j hjm]
      _ = ∑ b ∈ range m, Hp b j • Vp b := by
          simp only [Vp, smul_sum, smul_smul, sum_smul]
          rw [sum_comm]
          apply sum_congr rfl; intro b _
          apply sum_congr rfl; intro i _
          rw [mul_comm]
  -- restrict the sum to b ≤ j+1
  have h4 : ∑ b ∈ range m, Hp b j • Vp b
      = (∑ b ∈ range k, Hp b j • Vp b) + (if j + 1 = k then Hp k (k - 1) • Vp k else 0) := by
    have hsplit : range m = range (k + 1) ∪ (range m \ range (k + 1)) := by
      rw [union_sdiff_of_subset]; exact range_subset_range.mpr (by omega)
    rw [hsplit, sum_union disjoint_sdiff, sum_range_succ]
    have hz : ∑ b ∈ range m \ range (k + 1), Hp b j • Vp b = 0 := by
      apply sum_eq_zero; intro b hb
      have hb' : k + 1 ≤ b := by
        have := (mem_sdiff.mp hb).2; rw [mem_range] at this; omega
      rw [hHess b j (by omega), zero_smul]
    rw [hz, add_zero]
    congr 1
    by_cases hjk : j + 1 = k
    · have hk1 : k - 1 + 1 = k := by omega
      have : j = k - 1 := by omega
      simp [this, hk1]
    · rw [hHess k j (by omega)]; simp [hjk]
  rw [h1, h2, h3, h4]
  by_cases hjk : j + 1 = k
  · have hk1 : k - 1 + 1 = k := by omega
    have hj' : j = k - 1 := by omega
    subst hj'
    simp only [hk1, if_true, fp]
    abel
  · have : Q (m - 1) j = 0 := hband j (by omega)
    simp [hjk, this]
#print axioms ira_compress
