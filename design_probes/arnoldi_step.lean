import Mathlib.Data.Matrix.Mul
import Mathlib.Algebra.BigOperators.Intervals
import Mathlib.Algebra.Field.Basic
import Mathlib.Tactic.Ring
import Mathlib.Tactic.Linarith

open Finset Matrix

variable {𝕜 : Type} [Field 𝕜] {n : ℕ}

/-- Krylov relation at dimension k: A v_j = Σ_{i<k} H i j • v_i + [j = k-1] f -/
def Kry (A : Matrix (Fin n) (Fin n) 𝕜) (V : ℕ → Fin n → 𝕜) (H : ℕ → ℕ → 𝕜) (f : Fin n → 𝕜) (k : ℕ) : Prop :=
  ∀ j, j < k → A *ᵥ V j = (∑ i ∈ range k, H i j • V i) + (if j + 1 = k then f else 0)

/-- one Arnoldi extension as the code does it: v_k = f/β, H(k,k-1)=β, column k of H = h,
    f' = A v_k - Σ_{i≤k} h i • v_i.  Holds for every h: orthogonality is not needed. -/
theorem arnoldi_step (A : Matrix (Fin n) (Fin n) 𝕜) (V : ℕ → Fin n → 𝕜) (H : ℕ → ℕ → 𝕜)
    (f : Fin n → 𝕜) (k : ℕ) (hk : 0 < k) (β : 𝕜) (hβ : β ≠ 0) (h : ℕ → 𝕜)
    (hK : Kry A V H f k) :
    let V' := Function.update V k (β⁻¹ • f)
    let H' : ℕ → ℕ → 𝕜 := fun i j => if j = k then h i else if i = k then (if j + 1 = k then β else 0) else H i j
    let f' := A *ᵥ V' k - ∑ i ∈ range (k + 1), h i • V' i
    Kry A V' H' f' (k + 1) := by
  intro V' H' f' j hj
  rcases Nat.lt_succ_iff_lt_or_eq.mp hj with hlt | heq
  · have hVj : V' j = V j := by simp [V', Function.update_of_ne (Nat.ne_of_lt hlt)]
    rw [hVj, hK j hlt, sum_range_succ]
    have hne : j ≠ k := Nat.ne_of_lt hlt
    have hsum : ∑ i ∈ range k, H' i j • V' i = ∑ i ∈ range k, H i j • V i := by
      apply sum_congr rfl
      intro i hi
      have hik : i ≠ k := Nat.ne_of_lt (mem_range.mp hi)
      simp [H', V', hne, hik]
    rw [hsum]
    have hjk1 : j + 1 ≠ k + 1 := by omega
    simp only [hjk1, if_false, add_zero]
    by_cases hlast : j + 1 = k
    · simp [H', V', hne, hlast, smul_smul, hβ]
    · simp [H', hne, hlast]
  · subst heq
    have hsum : ∑ i ∈ range (j + 1), H' i j • V' i = ∑ i ∈ range (j + 1), h i • V' i := by
      apply sum_congr rfl; intro i _; simp [H']
    rw [hsum]; simp [f']
#print axioms arnoldi_step
