import Mathlib.Analysis.SpecialFunctions.Pow.Real
import Mathlib.Tactic.Ring
import Mathlib.Tactic.Linarith
import Mathlib.Tactic.FieldSimp
import Mathlib.Tactic.Positivity

-- standard branch of UpperHessenbergQR::stable_scaling over ℝ
theorem std_branch (a b : ℝ) (ha : 0 < a) (hb : 0 ≤ b) :
    let t := b / a
    let denom := Real.sqrt (1 + t * t)
    let c := 1 / denom
    let s := t * c
    let r := a * denom
    c * c + s * s = 1 ∧ r * c = a ∧ r * s = b ∧ r * r = a * a + b * b := by
  intro t denom c s r
  have hpos : 0 < 1 + t * t := by positivity
  have hd : 0 < denom := Real.sqrt_pos.mpr hpos
  have hd2 : denom * denom = 1 + t * t := Real.mul_self_sqrt hpos.le
  have hne : denom ≠ 0 := hd.ne'
  have hta : t * a = b := by simp only [t]; field_simp
  refine ⟨?_, ?_, ?_, ?_⟩
  · simp only [s, c]; field_simp; nlinarith [hd2]
  · simp only [r, c]; field_simp
  · simp only [r, s, c]; field_simp; nlinarith [hta]
  · simp only [r]; nlinarith [hd2, hta]

-- series branch: orthogonality defect of (c, s)
theorem taylor_branch (t : ℝ) (h0 : 0 ≤ t) (h1 : t ≤ 1) :
    let t2 := t * t
    let tc := t2 * (1/2 - 3/8 * t2)
    let c := 1 - tc
    let s := t - t * tc
    |c * c + s * s - 1| ≤ 5/8 * t^6 := by
  intro t2 tc c s
  have e : c * c + s * s - 1 = 5/8 * t^6 - 15/64 * t^8 + 9/64 * t^10 := by
    simp only [c, s, tc, t2]; ring
  rw [e, abs_le]
  have h6 : 0 ≤ t^6 := by positivity
  have h8 : t^8 ≤ t^6 := by
    have : t^8 = t^6 * t^2 := by ring
    rw [this]; nlinarith [pow_le_one₀ h0 h1 (n := 2)]
  have h10 : t^10 ≤ t^8 := by
    have : t^10 = t^8 * t^2 := by ring
    rw [this]; nlinarith [pow_le_one₀ h0 h1 (n := 2), pow_nonneg h0 8]
  have h8n : 0 ≤ t^8 := by positivity
  have h10n : 0 ≤ t^10 := by positivity
  constructor <;> nlinarith
#print axioms std_branch
#print axioms taylor_branch
