def intRange (lo hi : Int) : List Int := (List.range (hi - lo).toNat).map (fun k => lo + (Int.ofNat k))

def hermNevAdj (m_nev m_ncv : Int) (zeroEst : Int → Bool) (nconv : Int) : Int :=
  let v0 := m_nev
  let v0 := (intRange m_nev m_ncv).foldl (fun v0 i => if zeroEst i then v0 + 1 else v0) v0
  let v0 := v0 + min nconv (Int.tdiv (m_ncv - v0) 2)
  let v0 := if v0 == 1 && m_ncv >= 6 then Int.tdiv m_ncv 2
            else if v0 == 1 && m_ncv > 2 then 2 else v0
  let v0 := if v0 > m_ncv - 1 then m_ncv - 1 else v0
  v0

theorem fold_count_bounds (l : List Int) (p : Int → Bool) (a : Int) :
    a ≤ l.foldl (fun v i => if p i then v + 1 else v) a ∧
    l.foldl (fun v i => if p i then v + 1 else v) a ≤ a + l.length := by
  induction l generalizing a with
  | nil => simp
  | cons x xs ih =>
    simp only [List.foldl_cons, List.length_cons]
    split
    · have := ih (a + 1); omega
    · have := ih a; omega

theorem intRange_length (lo hi : Int) : (intRange lo hi).length = (hi - lo).toNat := by
  simp [intRange]

theorem tdiv2 (x : Int) (h : 0 ≤ x) : Int.tdiv x 2 = x / 2 := Int.tdiv_eq_ediv_of_nonneg h

theorem c13_herm_k (nev ncv : Int) (z : Int → Bool) (nconv : Int)
    (h1 : 1 ≤ nev) (h2 : nev < ncv) (h3 : 0 ≤ nconv) :
    nev ≤ hermNevAdj nev ncv z nconv ∧ hermNevAdj nev ncv z nconv ≤ ncv - 1 := by
  simp only [hermNevAdj]
  have hb := fold_count_bounds (intRange nev ncv) z nev
  rw [intRange_length] at hb
  generalize (intRange nev ncv).foldl (fun v0 i => if z i then v0 + 1 else v0) nev = c at hb
  have hc2 : c ≤ ncv := by omega
  rw [tdiv2 (ncv - c) (by omega), tdiv2 ncv (by omega)]
  simp only [beq_iff_eq, Bool.and_eq_true, decide_eq_true_eq, ge_iff_le, gt_iff_lt]
  split <;> split <;> (try split) <;> omega
#print axioms c13_herm_k
